//go:build verif

// Package vx is the harness vocabulary. Under the symbolic interpreter
// (symx) every function below is intercepted by name; compiled natively
// the same functions read a replay vector, so that a solver model can be
// re-run against the real build (DESIGN.md §2.1 "Harness vocabulary").
package vx

import (
	"fmt"
	"reflect"
	"sort"
	"strconv"
	"strings"
)

var (
	replay   []uint64
	pos      int
	params   map[string]string
	Log      []string
	Failures []string
	registry = map[string]func(){}
)

type AssumeFailed struct{}

func Register(name string, f func()) { registry[name] = f }
func Lookup(name string) func()      { return registry[name] }

func Reset(v []uint64, p map[string]string) {
	replay, pos, params = v, 0, p
	Log, Failures = nil, nil
}

func next() uint64 {
	if pos >= len(replay) {
		Failures = append(Failures, "replay vector exhausted")
		return 0
	}
	v := replay[pos]
	pos++
	return v
}

func Byte() byte { return byte(next()) }
func Bool() bool { return next() == 1 }

func Int(lo, hi int) int {
	v := int(int64(next()))
	if v < lo || v > hi {
		Failures = append(Failures, fmt.Sprintf("replay value %d outside [%d,%d]", v, lo, hi))
	}
	return v
}

func String(maxLen int) string {
	n := int(next())
	if n > maxLen {
		Failures = append(Failures, "replay string longer than bound")
		n = maxLen
	}
	b := make([]byte, n)
	for i := range b {
		b[i] = byte(next())
	}
	return string(b)
}

func StringN(n int) string {
	b := make([]byte, n)
	for i := range b {
		b[i] = byte(next())
	}
	return string(b)
}

func Choice(n int) int { return int(next()) }

func Assume(c bool) {
	if !c {
		panic(AssumeFailed{})
	}
}

func Assert(c bool, msg string) {
	if !c {
		Failures = append(Failures, msg)
	}
}

func Reach(tag string)         {}
func MapOrders(on bool)        {}
func Symbolic() bool           { return false }
func EpochMark()               {}
func Monitor(on bool)          {}
func Param(name string) string { return params[name] }
func ParamInt(name string) int {
	n, _ := strconv.Atoi(params[name])
	return n
}

// And, Or, Not build a condition without short-circuit branching: under symx
// they produce one SMT term instead of forking the path.
func And(a, b bool) bool { return a && b }
func Or(a, b bool) bool  { return a || b }
func Not(a bool) bool    { return !a }

// StubLog returns what the interpreter's environment stubs recorded on this
// path (os.Open, http.Redirect, http.ServeContent arguments). Natively there
// are no stubs: nil.
func StubLog() []string { return nil }

// PoolReuse makes sync.Pool hand back the object most recently Put (a legal
// behaviour of a pool) instead of always allocating; natively pools do as they please.
func PoolReuse(on bool) {}

func Ite(c bool, a, b int) int {
	if c {
		return a
	}
	return b
}

func Observe(tag string, vals ...interface{}) {
	var sb strings.Builder
	sb.WriteString(tag)
	for _, v := range vals {
		sb.WriteString(" ")
		sb.WriteString(Render(v))
	}
	Log = append(Log, sb.String())
}

// Render must agree with symx's renderValue.
func Render(v interface{}) string {
	if v == nil {
		return "<nil>"
	}
	return render(reflect.ValueOf(v))
}

func render(rv reflect.Value) string {
	switch rv.Kind() {
	case reflect.Bool:
		return strconv.FormatBool(rv.Bool())
	case reflect.Int, reflect.Int8, reflect.Int16, reflect.Int32, reflect.Int64:
		return strconv.FormatInt(rv.Int(), 10)
	case reflect.Uint, reflect.Uint8, reflect.Uint16, reflect.Uint32, reflect.Uint64, reflect.Uintptr:
		return strconv.FormatUint(rv.Uint(), 10)
	case reflect.String:
		return strconv.Quote(rv.String())
	case reflect.Slice, reflect.Array:
		parts := make([]string, rv.Len())
		for i := range parts {
			parts[i] = render(rv.Index(i))
		}
		return "[" + strings.Join(parts, " ") + "]"
	case reflect.Map:
		var parts []string
		it := rv.MapRange()
		for it.Next() {
			parts = append(parts, render(it.Key())+":"+render(it.Value()))
		}
		sort.Strings(parts)
		return "{" + strings.Join(parts, " ") + "}"
	case reflect.Interface:
		if rv.IsNil() {
			return "<nil>"
		}
		return render(rv.Elem())
	case reflect.Struct:
		parts := make([]string, rv.NumField())
		for i := range parts {
			parts[i] = render(rv.Field(i))
		}
		return "{" + strings.Join(parts, " ") + "}"
	case reflect.Ptr:
		if rv.IsNil() {
			return "<nilptr>"
		}
		return "&" + render(rv.Elem())
	}
	return "<" + rv.Kind().String() + ">"
}
