//go:build verif

package inject

// C04 harness (inject level): resolution by type, nearest scope first, with
// symbolic registrations over a declared type universe, against a reference
// resolver written from the statement.

import (
	"reflect"
	"strings"

	"github.com/flamego/flamego/internal/vx"
)

func init() {
	vx.Register("VH_C04_exact", VH_C04_exact)
	vx.Register("VH_C04_invoke", VH_C04_invoke)
	vx.Register("VH_C04_apply", VH_C04_apply)
}

// ---- type universe -----------------------------------------------------------

type vS struct{ tag int }
type vName string
type vNum int
type vI interface{ I() int }
type vJ interface {
	I() int
	J() int
}
type vImpA struct{ tag int } // implements vI
type vImpB struct{ tag int } // implements vI and vJ
type vImpC struct{ tag int } // *vImpC implements vI

func (a vImpA) I() int  { return a.tag }
func (b vImpB) I() int  { return b.tag }
func (b vImpB) J() int  { return b.tag }
func (c *vImpC) I() int { return c.tag }

const (
	tS  = iota // vS
	tPS        // *vS
	tName
	tNum
	tChan // chan int (via Set)
	tI    // vI registered with MapTo
	tJ    // vJ registered with MapTo
	tImpA // vImpA registered with Map
	tImpB // vImpB registered with Map
	tImpC // *vImpC registered with Map
	nTypes
)

var vTypeNames = []string{"inject.vS", "*inject.vS", "inject.vName", "inject.vNum", "chan int", "inject.vI", "inject.vJ",
	"inject.vImpA", "inject.vImpB", "*inject.vImpC"}

// implementors of an interface-typed parameter, by universe index
func vImplements(t, iface int) bool {
	switch iface {
	case tI:
		return t == tI || t == tJ || t == tImpA || t == tImpB || t == tImpC
	case tJ:
		return t == tJ || t == tImpB
	}
	return false
}

// vRegister maps a value of universe type t carrying tag into inj.
func vRegister(inj Injector, t, tag int) {
	switch t {
	case tS:
		inj.Map(vS{tag})
	case tPS:
		inj.Map(&vS{tag})
	case tName:
		inj.Map(vName(rune('0' + tag)))
	case tNum:
		inj.Map(vNum(tag))
	case tChan:
		ch := make(chan int, 1)
		ch <- tag
		inj.Set(reflect.TypeOf(ch), reflect.ValueOf(ch))
	case tI:
		inj.MapTo(vImpA{tag}, (*vI)(nil))
	case tJ:
		inj.MapTo(vImpB{tag}, (*vJ)(nil))
	case tImpA:
		inj.Map(vImpA{tag})
	case tImpB:
		inj.Map(vImpB{tag})
	case tImpC:
		inj.Map(&vImpC{tag})
	}
}

// vTagOf extracts the tag from an argument received by a handler body.
func vTagOf(t int, v interface{}) int {
	switch t {
	case tS:
		return v.(vS).tag
	case tPS:
		return v.(*vS).tag
	case tName:
		return int(v.(vName)[0] - '0')
	case tNum:
		return int(v.(vNum))
	case tChan:
		ch := v.(chan int)
		x := <-ch
		ch <- x
		return x
	case tI:
		return v.(vI).I()
	case tJ:
		return v.(vJ).J()
	}
	return -1
}

type vWorld struct {
	scopes  []Injector     // scopes[0] is the innermost (request) scope
	present [][nTypes]bool // present[s][t]
	tag     [][nTypes]int  // tag carried by the registration in force
}

// vBuild creates n nested scopes and registers, for every universe type that
// can satisfy one of the asked types, a value or not (symbolic), possibly twice.
func vBuild(n int, asked []int) *vWorld {
	w := &vWorld{}
	for s := 0; s < n; s++ {
		w.scopes = append(w.scopes, New())
		w.present = append(w.present, [nTypes]bool{})
		w.tag = append(w.tag, [nTypes]int{})
	}
	for s := 0; s+1 < n; s++ {
		w.scopes[s].SetParent(w.scopes[s+1])
	}
	// which universe types may be registered in this job: the asked types plus
	// the implementors named by the job ("impls"), so that the registration
	// assignments explored stay within reach
	relevant := [nTypes]bool{}
	for _, a := range asked {
		relevant[a] = true
	}
	for _, t := range vParseSig(vx.Param("impls")) {
		relevant[t] = true
	}
	for s := 0; s < n; s++ {
		// one registration nobody asks for, in every scope
		w.scopes[s].Map("irrelevant")
		for t := 0; t < nTypes; t++ {
			if !relevant[t] || !vx.Bool() {
				continue
			}
			tag := 1 + s*3
			vRegister(w.scopes[s], t, tag)
			if len(asked) > 0 && t == asked[0] && vx.Bool() { // a later registration for the same type replaces the earlier
				tag++
				vRegister(w.scopes[s], t, tag)
			}
			w.present[s][t] = true
			w.tag[s][t] = tag
		}
	}
	return w
}

// vResolve is the reference resolver: nearest scope first; within a scope the
// exact type, else (interface) any registered implementor; else outwards.
// Returns the set of acceptable tags (empty = unresolvable).
func (w *vWorld) vResolve(asked int) []int {
	for s := range w.scopes {
		if w.present[s][asked] {
			return []int{w.tag[s][asked]}
		}
		if asked == tI || asked == tJ {
			var set []int
			for t := 0; t < nTypes; t++ {
				if t != asked && vImplements(t, asked) && w.present[s][t] {
					set = append(set, w.tag[s][t])
				}
			}
			if len(set) > 0 {
				return set
			}
		}
	}
	return nil
}

func vIn(x int, set []int) bool {
	for _, y := range set {
		if x == y {
			return true
		}
	}
	return false
}

// vFast2 is a FastInvoker over the signature (p0, p1 of the asked types); the
// harness builds one per asked pair through makeFast.
type vFast struct {
	types []reflect.Type
	body  func(args []interface{}) int
}

// ---- harness: Invoke ---------------------------------------------------------

// signatures are encoded in the job parameter "sig" as universe indices, e.g. "0,5"
func vParseSig(s string) []int {
	var out []int
	if s == "" {
		return out
	}
	for _, f := range strings.Split(s, ",") {
		n := 0
		for _, c := range f {
			n = n*10 + int(c-'0')
		}
		out = append(out, n)
	}
	return out
}

// vMakeFunc returns a plain function with the asked parameter types whose
// body records the arguments; arity <= 2 and the supported pairs are listed.
func vMakeFunc(sig []int, got *[]interface{}, calls *int) interface{} {
	rec := func(args ...interface{}) int {
		*calls++
		*got = append(*got, args...)
		return 40 + len(args)
	}
	key := ""
	for _, t := range sig {
		key += string(rune('a' + t))
	}
	switch key {
	case "":
		return func() int { return rec() }
	case "a":
		return func(a vS) int { return rec(a) }
	case "b":
		return func(a *vS) int { return rec(a) }
	case "c":
		return func(a vName) int { return rec(a) }
	case "d":
		return func(a vNum) int { return rec(a) }
	case "e":
		return func(a chan int) int { return rec(a) }
	case "f":
		return func(a vI) int { return rec(a) }
	case "g":
		return func(a vJ) int { return rec(a) }
	case "af":
		return func(a vS, b vI) int { return rec(a, b) }
	case "fb":
		return func(a vI, b *vS) int { return rec(a, b) }
	case "fg":
		return func(a vI, b vJ) int { return rec(a, b) }
	case "cd":
		return func(a vName, b vNum) int { return rec(a, b) }
	case "gc":
		return func(a vJ, b vName) int { return rec(a, b) }
	case "ee":
		return func(a chan int, b chan int) int { return rec(a, b) }
	}
	panic("harness: unsupported signature " + key)
}

// vFastOf wraps f (a plain function of the universe) as a FastInvoker of the
// same parameter types.
type vFastAF func(a vS, b vI) int

func (f vFastAF) Invoke(args []interface{}) ([]reflect.Value, error) {
	return []reflect.Value{reflect.ValueOf(f(args[0].(vS), args[1].(vI)))}, nil
}

type vFastF func(a vI) int

func (f vFastF) Invoke(args []interface{}) ([]reflect.Value, error) {
	return []reflect.Value{reflect.ValueOf(f(args[0].(vI)))}, nil
}

type vFastCD func(a vName, b vNum) int

func (f vFastCD) Invoke(args []interface{}) ([]reflect.Value, error) {
	return []reflect.Value{reflect.ValueOf(f(args[0].(vName), args[1].(vNum)))}, nil
}

func vWrapFast(sig []int, f interface{}) interface{} {
	switch g := f.(type) {
	case func(vS, vI) int:
		return vFastAF(g)
	case func(vI) int:
		return vFastF(g)
	case func(vName, vNum) int:
		return vFastCD(g)
	}
	return nil
}

func VH_C04_invoke() {
	sig := vParseSig(vx.Param("sig"))
	nscopes := vx.ParamInt("scopes")
	if vx.ParamInt("maporders") == 1 {
		vx.MapOrders(true)
	}
	w := vBuild(nscopes, sig)
	var got []interface{}
	calls := 0
	f := vMakeFunc(sig, &got, &calls)
	fast := false
	if vx.ParamInt("fast") == 1 {
		if ff := vWrapFast(sig, f); ff != nil {
			f = ff
			fast = true
		}
	}
	vx.Assert(IsFastInvoker(f) == fast, "C04: IsFastInvoker tells wrapped from plain functions")

	vals, err := w.scopes[0].Invoke(f)

	missing := -1
	sets := make([][]int, len(sig))
	for i, t := range sig {
		sets[i] = w.vResolve(t)
		if sets[i] == nil && missing < 0 {
			missing = i
		}
	}
	if missing >= 0 {
		vx.Reach("missing")
		vx.Assert(err != nil, "C04: an unresolvable parameter makes the invocation report an error")
		vx.Assert(calls == 0, "C04: ... and the handler body does not run")
		if err != nil {
			vx.Assert(strings.Contains(err.Error(), vTypeNames[sig[missing]]), "C04: the error names the type that could not be resolved")
		}
	} else {
		vx.Reach("resolved")
		vx.Assert(err == nil && calls == 1, "C04: all parameters resolvable => the body runs exactly once")
		if calls == 1 && len(got) == len(sig) {
			for i, t := range sig {
				vx.Assert(vIn(vTagOf(t, got[i]), sets[i]), "C04: each parameter receives the value registered for its type in the nearest scope (an implementor of that scope for an interface)")
			}
		}
		vx.Assert(len(vals) == 1 && vals[0].Kind() == reflect.Int && int(vals[0].Int()) == 40+len(sig), "C04: results come back unchanged")
	}
	vx.Observe("invoke", vx.Param("sig"), fast, missing, calls)

	// ---- second phase: a later registration replaces the earlier, also after
	// the type has already been resolved once (resolution must not be remembered)
	if vx.ParamInt("rereg") != 1 {
		return
	}
	var cand [][2]int // (scope, type) pairs that hold a registration relevant to the signature
	for s := range w.scopes {
		for t := 0; t < nTypes; t++ {
			if w.present[s][t] {
				cand = append(cand, [2]int{s, t})
			}
		}
	}
	if len(cand) == 0 {
		return
	}
	pick := cand[vx.Choice(len(cand))]
	newTag := 20 + pick[0]
	vRegister(w.scopes[pick[0]], pick[1], newTag)
	w.tag[pick[0]][pick[1]] = newTag
	got, calls = nil, 0
	_, err2 := w.scopes[0].Invoke(f)
	if missing < 0 {
		vx.Assert(err2 == nil && calls == 1, "C04: re-invocation after a re-registration runs the body once")
		if calls == 1 && len(got) == len(sig) {
			for i, t := range sig {
				vx.Assert(vIn(vTagOf(t, got[i]), w.vResolve(t)), "C04: a later registration for the same type in the same scope replaces the earlier, also after that type was resolved before")
			}
		}
	}
	vx.Observe("reinvoke", pick[0], pick[1], calls)
}

// ---- harness: Apply ----------------------------------------------------------

type vTarget struct {
	A *vS   `inject:""`
	B vName `inject:"x"`
	c vNum  `inject:""` // not settable: must be left alone
	D vI    `inject:""`
	E vNum  // no tag: must be left alone
}

func VH_C04_apply() {
	nscopes := vx.ParamInt("scopes")
	w := vBuild(nscopes, []int{tPS, tName, tNum, tI})
	tgt := &vTarget{E: 99}
	if vx.Bool() {
		// the struct was filled before (an earlier Apply, another scope): Apply sets every tagged field anew
		tgt.A = &vS{tag: 77}
		tgt.B = "7"
	}
	err := w.scopes[0].Apply(tgt)
	sa, sb, sd := w.vResolve(tPS), w.vResolve(tName), w.vResolve(tI)
	switch {
	case sa == nil:
		vx.Assert(err != nil && strings.Contains(err.Error(), vTypeNames[tPS]), "C04/Apply: first unresolvable tagged field is reported by type")
	case sb == nil:
		vx.Assert(err != nil && strings.Contains(err.Error(), vTypeNames[tName]), "C04/Apply: first unresolvable tagged field is reported by type")
	case sd == nil:
		vx.Assert(err != nil && strings.Contains(err.Error(), vTypeNames[tI]), "C04/Apply: first unresolvable tagged field is reported by type")
	default:
		vx.Reach("applied")
		vx.Assert(err == nil, "C04/Apply: all tagged settable fields resolvable => no error")
		if err == nil {
			vx.Assert(tgt.A != nil && vIn(tgt.A.tag, sa), "C04/Apply: pointer field")
			vx.Assert(len(tgt.B) == 1 && vIn(int(tgt.B[0]-'0'), sb), "C04/Apply: named string field")
			vx.Assert(tgt.D != nil && vIn(tgt.D.I(), sd), "C04/Apply: interface field gets an implementor of the nearest scope")
		}
	}
	vx.Assert(tgt.c == 0 && tgt.E == 99, "C04/Apply: unexported and untagged fields are left alone")
	vx.Assert(w.scopes[0].Apply(42) == nil, "C04/Apply: a non-struct is ignored")
	vx.Observe("apply", err != nil)
}

// ---- harness: "exactly its type" for types that have assignable look-alikes -----

type vList []int
type vFn func() int
type vDict map[string]int

// VH_C04_exact: a parameter of a named slice / func / map type or of a
// directional channel type is resolved only by a registration of exactly that
// type; a registration of the unnamed (or bidirectional) type with the same
// underlying type does not count.
func VH_C04_exact() {
	inj := New()
	parent := New()
	inj.SetParent(parent)
	regLookalike := vx.Bool()
	regExact := vx.Bool()
	inParent := vx.Bool()
	target := inj
	if inParent {
		target = parent
	}
	which := vx.Choice(4)
	calls := 0
	var f interface{}
	name := ""
	switch which {
	case 0:
		if regLookalike {
			target.Map([]int{1})
		}
		if regExact {
			target.Map(vList{2})
		}
		f = func(l vList) { calls++ }
		name = "inject.vList"
	case 1:
		if regLookalike {
			target.Map(func() int { return 1 })
		}
		if regExact {
			target.Map(vFn(func() int { return 2 }))
		}
		f = func(fn vFn) { calls++ }
		name = "inject.vFn"
	case 2:
		if regLookalike {
			target.Map(map[string]int{})
		}
		if regExact {
			target.Map(vDict{})
		}
		f = func(d vDict) { calls++ }
		name = "inject.vDict"
	case 3:
		ch := make(chan int)
		if regLookalike {
			target.Map(ch)
		}
		if regExact {
			var ro <-chan int = ch
			target.Set(reflect.TypeOf(ro), reflect.ValueOf(ro))
		}
		f = func(c <-chan int) { calls++ }
		name = "<-chan int"
	}
	_, err := inj.Invoke(f)
	if regExact {
		vx.Assert(err == nil && calls == 1, "C04: a registration of exactly the parameter's type resolves it")
	} else {
		vx.Assert(err != nil && calls == 0, "C04: a parameter receives the value registered for exactly its type: a look-alike of the same underlying type does not resolve it")
		if err != nil {
			vx.Assert(strings.Contains(err.Error(), name), "C04: the error names the type")
		}
	}
	vx.Observe("exact", which, regLookalike, regExact, inParent, calls)
}
