//go:build verif

package route

import (
	"encoding/json"
	"fmt"
	"os"
	"testing"

	"github.com/flamego/flamego/internal/vx"
)

type vReplayCase struct {
	ID     string            `json:"id"`
	Setup  string            `json:"setup"`
	Body   string            `json:"body"`
	Params map[string]string `json:"params"`
	Replay []uint64          `json:"replay"`
}

type vReplayOut struct {
	ID       string   `json:"id"`
	Obs      []string `json:"obs"`
	Failures []string `json:"failures"`
	Panic    string   `json:"panic"`
	Assume   bool     `json:"assume_failed"`
	Missing  bool     `json:"missing"`
}

func vRunCase(c vReplayCase) (out vReplayOut) {
	out.ID = c.ID
	body := vx.Lookup(c.Body)
	if body == nil {
		out.Missing = true
		return
	}
	var setupFailures []string
	defer func() {
		out.Obs = vx.Log
		out.Failures = append(setupFailures, vx.Failures...)
		if p := recover(); p != nil {
			if _, ok := p.(vx.AssumeFailed); ok {
				out.Assume = true
				return
			}
			out.Panic = fmt.Sprint(p)
		}
	}()
	if c.Setup != "" {
		vx.Reset(nil, c.Params)
		vx.Lookup(c.Setup)()
		setupFailures = vx.Failures
	}
	vx.Reset(c.Replay, c.Params)
	body()
	return
}

func TestVerifReplay(t *testing.T) {
	path := os.Getenv("VERIF_REPLAY_FILE")
	if path == "" {
		t.Skip("no VERIF_REPLAY_FILE")
	}
	data, err := os.ReadFile(path)
	if err != nil {
		t.Fatal(err)
	}
	var cases []vReplayCase
	if err := json.Unmarshal(data, &cases); err != nil {
		t.Fatal(err)
	}
	f, err := os.Create(os.Getenv("VERIF_REPLAY_OUT"))
	if err != nil {
		t.Fatal(err)
	}
	defer f.Close()
	enc := json.NewEncoder(f)
	for _, c := range cases {
		_ = enc.Encode(vRunCase(c))
	}
}
