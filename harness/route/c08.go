//go:build verif

package route

// C08 harness: a registration fails (with an error, at registration time) iff
// the statement says it must; every identifier of the history is symbolic, so
// equalities among bind names and literals are decided by the solver.

import (
	"net/http"
	"regexp/syntax"
	"strings"

	"github.com/flamego/flamego/internal/vx"
)

func init() {
	vx.Register("VH_C08_register", VH_C08_register)
}

type vRegState struct {
	registered map[string]bool   // canonical texts (incl. implied short forms)
	allAt      map[string]string // tree position -> text of the match-all registered there
}

// vSlots replaces every identifier written N<digit> in the parsed route by the
// symbolic name of that slot.
func vSlots(r *Route, names []string) {
	sub := func(s string) (string, bool) {
		if len(s) == 2 && s[0] == 'N' && s[1] >= '0' && s[1] <= '9' {
			return names[s[1]-'0'], true
		}
		return s, false
	}
	for _, sg := range r.Segments {
		for i := range sg.Elements {
			e := &sg.Elements[i]
			if e.Ident != nil {
				if n, ok := sub(*e.Ident); ok {
					e.Ident = &n
				}
			}
			if e.BindIdent != nil {
				if n, ok := sub(*e.BindIdent); ok {
					e.BindIdent = &n
				}
			}
			if e.BindParameters != nil {
				for j := range e.BindParameters.Parameters {
					if n, ok := sub(e.BindParameters.Parameters[j].Ident); ok {
						e.BindParameters.Parameters[j].Ident = n
					}
				}
			}
		}
	}
}

type vRegSeg struct {
	text    string
	isAll   bool
	binds   []string
	regexes []string
	empty   bool
	badElem bool // a bind-parameter element that is neither ** nor a regex
}

func vRegDescribe(r *Route) ([]vRegSeg, int) {
	optAt := -1
	var out []vRegSeg
	for i, s := range r.Segments {
		seg := vRegSeg{text: vSegText(s), empty: len(s.Elements) == 0}
		if s.Optional {
			optAt = i
		}
		els := s.Elements
		switch {
		case len(els) == 1 && els[0].BindIdent != nil && *els[0].BindIdent == "**":
			seg.isAll = true
			seg.binds = []string{"**"}
		case len(els) >= 1 && els[0].BindParameters != nil && els[0].BindParameters.Parameters[0].Value.Literal != nil &&
			*els[0].BindParameters.Parameters[0].Value.Literal == "**":
			seg.isAll = true
			seg.binds = []string{els[0].BindParameters.Parameters[0].Ident}
		default:
			for _, e := range els {
				if e.BindIdent != nil {
					seg.binds = append(seg.binds, *e.BindIdent)
				}
				if e.BindParameters != nil {
					for _, p := range e.BindParameters.Parameters {
						seg.binds = append(seg.binds, p.Ident)
						if p.Value.Regex != nil {
							seg.regexes = append(seg.regexes, *p.Value.Regex)
						} else {
							seg.badElem = true
						}
					}
				}
			}
		}
		out = append(out, seg)
	}
	return out, optAt
}

// vMustReject: the statement's list of ill-formed registrations.
func vMustReject(r *Route, st *vRegState) (bool, string) {
	segs, optAt := vRegDescribe(r)
	n := len(segs)
	if optAt >= 0 && optAt != n-1 {
		return true, "a non-final segment is optional"
	}
	for j, s := range segs {
		if s.empty && j < n-1 {
			return true, "an inner segment is empty"
		}
	}
	var seen []string
	mid := 0
	for j, s := range segs {
		for _, b := range s.binds {
			for _, o := range seen {
				if o == b {
					return true, "a bind name is reused along the route"
				}
			}
			seen = append(seen, b)
		}
		if s.badElem {
			return true, "a bind parameter is neither ** nor an expression"
		}
		for _, re := range s.regexes {
			if _, err := syntax.Parse(re, syntax.Perl); err != nil {
				return true, "an expression does not compile"
			}
		}
		if s.isAll && j < n-1 {
			mid++
		}
	}
	if mid > 1 {
		return true, "two match-all segments precede the end"
	}
	text, short := "", ""
	for j, s := range segs {
		text += "/"
		if j == optAt {
			text += "?"
		}
		text += s.text
		if j < n-1 {
			short += "/" + s.text
		}
	}
	if short == "" {
		short = "/" // the short form of a root-level optional route is the root itself
	}
	if st.registered[text] {
		return true, "the same route is already registered"
	}
	if optAt >= 0 && st.registered[short] {
		return true, "the short form implied by the optional segment is already registered"
	}
	prefix := ""
	for j, s := range segs {
		pos := prefix + "|tree"
		mt := s.text
		if j == n-1 {
			pos = prefix + "|leaf"
			if j == optAt {
				mt = "?" + mt
			}
		}
		if s.isAll {
			if t, ok := st.allAt[pos]; ok && t != mt {
				return true, "a different match-all is registered at this position"
			}
			if optAt >= 0 && j == n-2 {
				if t, ok := st.allAt[prefix+"|leaf"]; ok && t != s.text {
					return true, "a different match-all is registered at the short form's position"
				}
			}
		}
		prefix += "/" + s.text
	}
	return false, ""
}

func (st *vRegState) record(r *Route) {
	segs, optAt := vRegDescribe(r)
	n := len(segs)
	text, short := "", ""
	prefix := ""
	for j, s := range segs {
		text += "/"
		if j == optAt {
			text += "?"
		}
		text += s.text
		if j < n-1 {
			short += "/" + s.text
		}
		pos := prefix + "|tree"
		mt := s.text
		if j == n-1 {
			pos = prefix + "|leaf"
			if j == optAt {
				mt = "?" + mt
			}
		}
		if s.isAll {
			st.allAt[pos] = mt
			if optAt >= 0 && j == n-2 {
				st.allAt[prefix+"|leaf"] = s.text
			}
		}
		prefix += "/" + s.text
	}
	st.registered[text] = true
	if short == "" {
		short = "/"
	}
	if optAt >= 0 {
		st.registered[short] = true
	}
}

func VH_C08_register() {
	texts := strings.Split(vx.Param("history"), "\n")
	nslots := vx.ParamInt("slots")
	names := make([]string, nslots)
	for i := range names {
		b := vx.Byte()
		vx.Assume(vx.And(b >= 'a', b <= 'd'))
		names[i] = string([]byte{b})
	}
	tree := NewTree()
	var accepted []*Route
	st := &vRegState{registered: map[string]bool{}, allAt: map[string]string{}}
	for step, t := range texts {
		vCheckParser(t)
		ast, err := vParseRoute(t)
		if err != nil {
			panic("setup: route does not parse: " + t)
		}
		vSlots(ast, names)
		want, why := vMustReject(ast, st)
		var addErr error
		panicked := vRegPanics(func() {
			_, addErr = AddRoute(tree, ast, func(http.ResponseWriter, *http.Request, Params) {})
		})
		vx.Assert(!panicked, "C08: registration never fails any other way than by reporting an error")
		got := addErr != nil
		if want {
			vx.Assert(got, "C08: an ill-formed registration is rejected at registration time")
		} else {
			vx.Assert(!got, "C08: every other route is accepted")
		}
		vx.Observe("reg", step, ast.String(), want, why, got)
		if got || want || panicked {
			// the history ends here; a registration that was rightly refused must have left
			// the routes accepted before it reachable
			if got && want && !panicked {
				for _, r := range accepted {
					for _, inst := range vInstances(r) {
						_, _, found := tree.Match(inst, nil)
						vx.Assert(found, "C08: an accepted route stays reachable by its own instances (also after a later registration was refused)")
					}
				}
			}
			return
		}
		st.record(ast)
		accepted = append(accepted, ast)
		// every route accepted so far is still reachable by its own instances (subject only
		// to priority: some registered route must take the instance, never not-found)
		for _, r := range accepted {
			for _, inst := range vInstances(r) {
				_, _, found := tree.Match(inst, nil)
				vx.Assert(found, "C08: an accepted route stays reachable by its own instances")
			}
		}
	}
}

var vRegexInstance = map[string]string{"x+": "xx", "[0-9]": "7", "(y)": "y", "x|y": "y", "r": "r", "s": "s"}

// vInstances builds one request path admitted by the route's long form and,
// for an optional route, one admitted by its short form.
func vInstances(r *Route) []string {
	var long, short string
	n := len(r.Segments)
	for i, sg := range r.Segments {
		seg := ""
		for _, e := range sg.Elements {
			switch {
			case e.Ident != nil:
				seg += *e.Ident
			case e.BindIdent != nil:
				seg += "p"
			case e.BindParameters != nil:
				for _, p := range e.BindParameters.Parameters {
					if p.Value.Regex != nil {
						seg += vRegexInstance[*p.Value.Regex]
					} else if p.Value.Literal != nil && *p.Value.Literal == "**" {
						seg += "m"
						break
					}
				}
			}
		}
		long += "/" + seg
		if i < n-1 {
			short += "/" + seg
		}
	}
	if n > 0 && r.Segments[n-1].Optional {
		if short == "" {
			short = "/"
		}
		return []string{long, short}
	}
	return []string{long}
}

func vRegPanics(f func()) (p bool) {
	defer func() {
		if recover() != nil {
			p = true
		}
	}()
	f()
	return
}
