//go:build verif

package route

import (
	"encoding/json"
	"fmt"
	"os"
	"testing"
)

type vParseOut struct {
	Accepted  bool   `json:"accepted"`
	Canonical string `json:"canonical"`
	Fixpoint  bool   `json:"fixpoint"`
	Mirror    bool   `json:"mirror"`
	Panic     string `json:"panic"`
}

func vParseOne(p *Parser, s string) (out vParseOut) {
	defer func() {
		if r := recover(); r != nil {
			out.Panic = fmt.Sprint(r)
		}
	}()
	r, err := p.Parse(s)
	if err != nil {
		return
	}
	out.Accepted = true
	out.Canonical = r.String()
	again, err := p.Parse(out.Canonical)
	out.Fixpoint = err == nil && again.String() == out.Canonical && len(again.Segments) == len(r.Segments)
	// the parsed structure mirrors the derivation: compared element by element
	// with the independent recursive-descent parser of the harness
	out.Mirror = vSameAST(s) == ""
	return
}

func TestVerifParse(t *testing.T) {
	path := os.Getenv("VERIF_PARSE_FILE")
	if path == "" {
		t.Skip("no VERIF_PARSE_FILE")
	}
	data, err := os.ReadFile(path)
	if err != nil {
		t.Fatal(err)
	}
	var in [][]int
	if err := json.Unmarshal(data, &in); err != nil {
		t.Fatal(err)
	}
	p, err := NewParser()
	if err != nil {
		t.Fatal(err)
	}
	outs := make([]vParseOut, 0, len(in))
	for _, cs := range in {
		b := make([]byte, len(cs))
		for i, c := range cs {
			b[i] = byte(c)
		}
		outs = append(outs, vParseOne(p, string(b)))
	}
	b, _ := json.Marshal(outs)
	if err := os.WriteFile(os.Getenv("VERIF_PARSE_OUT"), b, 0o644); err != nil {
		t.Fatal(err)
	}
}
