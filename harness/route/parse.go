//go:build verif

package route

// A small recursive-descent parser for the route grammar, used only inside
// the symbolic interpreter (participle is reflection-driven and cannot be
// executed there). On every run the native helper compares its output with
// the real parser's for each route string the run uses (vSameAST).

import (
	"errors"

	"github.com/alecthomas/participle/v2/lexer"

	"github.com/flamego/flamego/internal/vx"
)

func vIsIdentChar(c byte) bool {
	switch {
	case c >= 'a' && c <= 'z', c >= 'A' && c <= 'Z', c >= '0' && c <= '9':
		return true
	}
	switch c {
	case '-', '.', '_', '~', '@', '!', '$', '&', '\'', '(', ')', '*', '+', ';', '%', '=':
		return true
	}
	return false
}

func vIsRegexChar(c byte) bool {
	switch {
	case c >= 'a' && c <= 'z', c >= 'A' && c <= 'Z', c >= '0' && c <= '9':
		return true
	}
	switch c {
	case '*', '-', '+', '.', '_', ',', '?', '(', ')', '[', ']', '{', '}', ' ', '\\', '|':
		return true
	}
	return false
}

type vParser struct {
	s   string
	pos int
}

func (p *vParser) at(c byte) bool { return p.pos < len(p.s) && p.s[p.pos] == c }

func (p *vParser) position() lexer.Position {
	return lexer.Position{Offset: p.pos, Line: 1, Column: p.pos + 1}
}

func (p *vParser) ident() (string, bool) {
	start := p.pos
	for p.pos < len(p.s) && vIsIdentChar(p.s[p.pos]) {
		p.pos++
	}
	if p.pos == start {
		return "", false
	}
	return p.s[start:p.pos], true
}

var vErrSyntax = errors.New("route syntax error")

// Like participle, it hands back what it had parsed so far together with the
// error (callers that ignore the error see a truncated route, as they would
// with the real parser).
func vParseRoute(s string) (*Route, error) {
	p := &vParser{s: s}
	r := &Route{}
	for p.pos < len(p.s) {
		if !p.at('/') {
			return r, vErrSyntax
		}
		seg := &Segment{Pos: p.position()}
		p.pos++
		if p.at('?') {
			seg.Optional = true
			p.pos++
		}
		for p.pos < len(p.s) && !p.at('/') {
			e := SegmentElement{Pos: p.position()}
			if id, ok := p.ident(); ok {
				id := id
				e.Ident = &id
			} else if p.at('{') {
				p.pos++
				id, ok := p.ident()
				if !ok {
					return r, vErrSyntax
				}
				if p.at('}') {
					p.pos++
					id := id
					e.BindIdent = &id
				} else {
					bp := &BindParameters{}
					for {
						if !p.at(':') {
							return r, vErrSyntax
						}
						p.pos++
						for p.at(' ') {
							p.pos++
						}
						par := BindParameter{Ident: id}
						if p.at('/') {
							p.pos++
							start := p.pos
							for p.pos < len(p.s) && vIsRegexChar(p.s[p.pos]) {
								p.pos++
							}
							if p.pos == start || !p.at('/') {
								return r, vErrSyntax
							}
							re := p.s[start:p.pos]
							par.Value.Regex = &re
							p.pos++
						} else {
							lit, ok := p.ident()
							if !ok {
								return r, vErrSyntax
							}
							par.Value.Literal = &lit
						}
						bp.Parameters = append(bp.Parameters, par)
						if p.at('}') {
							p.pos++
							break
						}
						if !p.at(',') {
							return r, vErrSyntax
						}
						p.pos++
						for p.at(' ') {
							p.pos++
						}
						id, ok = p.ident()
						if !ok {
							return r, vErrSyntax
						}
					}
					e.BindParameters = bp
				}
			} else {
				return r, vErrSyntax
			}
			e.EndPos = p.position()
			seg.Elements = append(seg.Elements, e)
		}
		r.Segments = append(r.Segments, seg)
	}
	if len(r.Segments) == 0 {
		return r, vErrSyntax
	}
	return r, nil
}

// vSameAST compares the harness parser's output with the real parser's.
// Native only (never called under symx).
func vSameAST(s string) string {
	real, err := NewParser()
	if err != nil {
		return "NewParser: " + err.Error()
	}
	want, werr := real.Parse(s)
	got, gerr := vParseRoute(s)
	if (werr != nil) != (gerr != nil) {
		return "acceptance differs for " + s
	}
	if werr != nil {
		return ""
	}
	if want.String() != got.String() {
		return "String() differs for " + s + ": " + want.String() + " vs " + got.String()
	}
	if len(want.Segments) != len(got.Segments) {
		return "segment count differs for " + s
	}
	for i := range want.Segments {
		a, b := want.Segments[i], got.Segments[i]
		if a.Optional != b.Optional || a.Slash != b.Slash || len(a.Elements) != len(b.Elements) || a.Pos.Offset != b.Pos.Offset {
			return "segment differs for " + s
		}
		for j := range a.Elements {
			x, y := a.Elements[j], b.Elements[j]
			if (x.Ident == nil) != (y.Ident == nil) || (x.BindIdent == nil) != (y.BindIdent == nil) || (x.BindParameters == nil) != (y.BindParameters == nil) {
				return "element kind differs for " + s
			}
			if x.Pos.Offset != y.Pos.Offset || x.EndPos.Offset != y.EndPos.Offset || x.Pos.Column != y.Pos.Column || x.Pos.Line != y.Pos.Line {
				return "element offset differs for " + s
			}
			if x.Ident != nil && *x.Ident != *y.Ident {
				return "ident differs for " + s
			}
			if x.BindIdent != nil && *x.BindIdent != *y.BindIdent {
				return "bind ident differs for " + s
			}
			if x.BindParameters != nil {
				if len(x.BindParameters.Parameters) != len(y.BindParameters.Parameters) {
					return "parameter count differs for " + s
				}
				for k := range x.BindParameters.Parameters {
					u, v := x.BindParameters.Parameters[k], y.BindParameters.Parameters[k]
					if u.Ident != v.Ident || (u.Value.Literal == nil) != (v.Value.Literal == nil) || (u.Value.Regex == nil) != (v.Value.Regex == nil) {
						return "parameter differs for " + s
					}
					if u.Value.Literal != nil && *u.Value.Literal != *v.Value.Literal {
						return "parameter literal differs for " + s
					}
					if u.Value.Regex != nil && *u.Value.Regex != *v.Value.Regex {
						return "parameter regex differs for " + s
					}
				}
			}
		}
	}
	return ""
}

// vCheckParser is called by harness set-up code: natively it validates the
// harness parser against the real one for every route string of the run.
func vCheckParser(s string) {
	if vx.Symbolic() {
		return
	}
	if d := vSameAST(s); d != "" {
		vx.Failures = append(vx.Failures, "HARNESS-PARSER-MISMATCH: "+d)
	}
}
