//go:build verif

package route

// Exported face of the routing oracle for harnesses in package flamego.

type VRouteSet struct {
	routes []vRoute
}

// VDescribe parses the route texts with the harness parser (validated against
// the real parser natively) and classifies them.
func VDescribe(texts []string) *VRouteSet {
	s := &VRouteSet{}
	for _, t := range texts {
		vCheckParser(t)
		ast, err := vParseRoute(t)
		if err != nil {
			panic("oracle: route does not parse: " + t)
		}
		s.routes = append(s.routes, vDescribe(ast))
	}
	return s
}

func VSplitPath(path string) []string { return vSplitPath(path) }

// VCanonicalText: the canonical text of a route as the statement defines it (the
// tokens in order, one blank after ':' and ','), from the harness parser's AST.
func VCanonicalText(text string) string {
	r, err := vParseRoute(text)
	if err != nil {
		return text
	}
	out := ""
	for _, s := range r.Segments {
		out += "/"
		if s.Optional {
			out += "?"
		}
		out += vSegText(s)
	}
	return out
}

func (s *VRouteSet) Len() int          { return len(s.routes) }
func (s *VRouteSet) Text(i int) string { return s.routes[i].text }

// Winner returns the index of the route the documented priority selects among
// the eligible ones (gate == nil: all), -1 if none; ok(params) tells whether a
// parameter map is exactly what that route captured.
func (s *VRouteSet) Winner(segs []string, gate []bool) (int, func(impl int, params map[string]string) bool) {
	w, cands, best := vSpecWinnerGated(s.routes, segs, gate)
	return w, func(impl int, params map[string]string) bool {
		good := false
		for i := range cands {
			if cands[i].route != impl {
				continue
			}
			good = vOr(good, vAnd(best[i], vParamsOK(&s.routes[impl], &cands[i], segs, Params(params))))
		}
		return good
	}
}

// Binds lists the bind names of route i in order of appearance.
func (s *VRouteSet) Binds(i int) []string {
	var out []string
	for _, sg := range s.routes[i].segs {
		switch sg.kind {
		case vkPlace, vkAll:
			out = append(out, sg.bind)
		case vkRegex:
			for _, e := range sg.elems {
				if e.isBind {
					out = append(out, e.bind)
				}
			}
		}
	}
	return out
}

// VReSearch: Go's (*Regexp).MatchString(s) for expression expr, as a term:
// some substring s[i:j] is in L(expr) (anchors ^ and $ refer to the whole s).
func VReSearch(expr string, s string) bool {
	re, err := syntaxParse(expr)
	if err != nil {
		panic("oracle: header expression does not compile: " + expr)
	}
	c := &vReCtx{s: s, memo: map[vReKey]bool{}}
	res := false
	for i := 0; i <= len(s); i++ {
		for j := i; j <= len(s); j++ {
			res = vOr(res, c.match(re, i, j))
		}
	}
	return res
}
