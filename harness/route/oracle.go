//go:build verif

package route

// Reference semantics for dispatch (C01) and bind values (C02), written from
// the property statements and the route grammar, not from tree.go/leaf.go.
// Everything that depends on request bytes is computed with vx.And/Or/Ite and
// plain comparisons, i.e. as one SMT term without forking the path; only the
// slash shape and percent-decoding fork (they determine lengths).

import (
	"regexp/syntax"
	"strconv"

	"github.com/flamego/flamego/internal/vx"
)

type vKind int

const (
	vkStatic vKind = iota + 1
	vkRegex
	vkPlace
	vkAll
)

type vElem struct {
	isBind bool
	lit    string         // literal text (when !isBind)
	bind   string         // bind name
	tree   *syntax.Regexp // declared expression of the bind (".+" for a bare {name})
}

type vSeg struct {
	kind    vKind
	text    string // canonical text of the segment, without "/" and "?"
	lit     string // static literal
	bind    string // placeholder / match-all bind name
	capture int    // match-all capture limit, 0 = unlimited
	elems   []vElem
}

type vRoute struct {
	segs     []vSeg
	optional bool
	text     string
}

// vSegText renders the canonical text of a segment (one blank after ':' and ',').
func vSegText(s *Segment) string {
	out := ""
	for _, e := range s.Elements {
		switch {
		case e.Ident != nil:
			out += *e.Ident
		case e.BindIdent != nil:
			out += "{" + *e.BindIdent + "}"
		case e.BindParameters != nil:
			out += "{"
			for i, p := range e.BindParameters.Parameters {
				if i > 0 {
					out += ", "
				}
				out += p.Ident + ": "
				if p.Value.Literal != nil {
					out += *p.Value.Literal
				} else if p.Value.Regex != nil {
					out += "/" + *p.Value.Regex + "/"
				}
			}
			out += "}"
		}
	}
	return out
}

var vAnyPlus = &syntax.Regexp{Op: syntax.OpPlus, Sub: []*syntax.Regexp{{Op: syntax.OpAnyCharNotNL}}}

// vDescribe classifies the segments of a parsed route by the documented
// categories: static, placeholder, match-all (with capture), regex.
func vDescribe(r *Route) vRoute {
	out := vRoute{}
	for i, s := range r.Segments {
		seg := vSeg{text: vSegText(s)}
		if s.Optional && i == len(r.Segments)-1 {
			out.optional = true
		}
		els := s.Elements
		switch {
		case len(els) == 0:
			seg.kind = vkStatic
		case len(els) == 1 && els[0].Ident != nil:
			seg.kind = vkStatic
			seg.lit = *els[0].Ident
		case len(els) == 1 && els[0].BindIdent != nil && *els[0].BindIdent != "**":
			seg.kind = vkPlace
			seg.bind = *els[0].BindIdent
		case len(els) == 1 && els[0].BindIdent != nil:
			seg.kind = vkAll
			seg.bind = "**"
		case els[0].BindParameters != nil && els[0].BindParameters.Parameters[0].Value.Literal != nil &&
			*els[0].BindParameters.Parameters[0].Value.Literal == "**":
			seg.kind = vkAll
			ps := els[0].BindParameters.Parameters
			seg.bind = ps[0].Ident
			if len(ps) > 1 && ps[1].Ident == "capture" && ps[1].Value.Literal != nil {
				seg.capture, _ = strconv.Atoi(*ps[1].Value.Literal)
			}
		default:
			seg.kind = vkRegex
			for _, e := range els {
				switch {
				case e.Ident != nil:
					seg.elems = append(seg.elems, vElem{lit: *e.Ident})
				case e.BindIdent != nil:
					seg.elems = append(seg.elems, vElem{isBind: true, bind: *e.BindIdent, tree: vAnyPlus})
				case e.BindParameters != nil:
					for _, p := range e.BindParameters.Parameters {
						var tree *syntax.Regexp
						if p.Value.Regex != nil {
							t, err := syntax.Parse(*p.Value.Regex, syntax.Perl)
							if err != nil {
								panic("oracle: regex does not compile: " + *p.Value.Regex)
							}
							tree = t
						}
						seg.elems = append(seg.elems, vElem{isBind: true, bind: p.Ident, tree: tree})
					}
				}
			}
		}
		out.segs = append(out.segs, seg)
		out.text += "/"
		if s.Optional {
			out.text += "?"
		}
		out.text += seg.text
	}
	return out
}

// ---------------------------------------------------------------------------
// Regular-expression membership as a term: s[i:j] in L(re), Go semantics
// (matching is over runes; an invalid UTF-8 byte is the rune U+FFFD, width 1).

type vReKey struct {
	re   *syntax.Regexp
	i, j int
	aux  int
}

type vReCtx struct {
	s    string
	memo map[vReKey]bool
}

func vByteIn(b byte, lo, hi byte) bool { return vx.And(lo <= b, b <= hi) }

// valid2/3/4: s[i:] starts with a complete, valid multi-byte sequence.
func (c *vReCtx) valid2(i int) bool {
	if i+2 > len(c.s) {
		return false
	}
	return vx.And(vByteIn(c.s[i], 0xC2, 0xDF), vByteIn(c.s[i+1], 0x80, 0xBF))
}

func (c *vReCtx) valid3(i int) bool {
	if i+3 > len(c.s) {
		return false
	}
	b0, b1, b2 := c.s[i], c.s[i+1], c.s[i+2]
	lead := vByteIn(b0, 0xE0, 0xEF)
	second := vx.Or(vx.Or(
		vx.And(b0 == 0xE0, vByteIn(b1, 0xA0, 0xBF)),
		vx.And(b0 == 0xED, vByteIn(b1, 0x80, 0x9F))),
		vx.And(vx.And(b0 != 0xE0, b0 != 0xED), vByteIn(b1, 0x80, 0xBF)))
	return vx.And(vx.And(lead, second), vByteIn(b2, 0x80, 0xBF))
}

func (c *vReCtx) valid4(i int) bool {
	if i+4 > len(c.s) {
		return false
	}
	b0, b1, b2, b3 := c.s[i], c.s[i+1], c.s[i+2], c.s[i+3]
	lead := vByteIn(b0, 0xF0, 0xF4)
	second := vx.Or(vx.Or(
		vx.And(b0 == 0xF0, vByteIn(b1, 0x90, 0xBF)),
		vx.And(b0 == 0xF4, vByteIn(b1, 0x80, 0x8F))),
		vx.And(vx.And(b0 != 0xF0, b0 != 0xF4), vByteIn(b1, 0x80, 0xBF)))
	return vx.And(vx.And(vx.And(lead, second), vByteIn(b2, 0x80, 0xBF)), vByteIn(b3, 0x80, 0xBF))
}

// oneRune: s[i:j] is exactly one rune of the input; returns (isOne, rune).
func (c *vReCtx) oneRune(i, j int) (bool, rune) {
	s := c.s
	switch j - i {
	case 1:
		b := s[i]
		ascii := b < 0x80
		invalid := vx.And(vx.Not(ascii), vx.Not(vx.Or(vx.Or(c.valid2(i), c.valid3(i)), c.valid4(i))))
		r := rune(vx.Ite(ascii, int(b), 0xFFFD))
		return vx.Or(ascii, invalid), r
	case 2:
		r := rune(s[i]&0x1F)<<6 | rune(s[i+1]&0x3F)
		return c.valid2(i), r
	case 3:
		r := rune(s[i]&0x0F)<<12 | rune(s[i+1]&0x3F)<<6 | rune(s[i+2]&0x3F)
		return c.valid3(i), r
	case 4:
		r := rune(s[i]&0x07)<<18 | rune(s[i+1]&0x3F)<<12 | rune(s[i+2]&0x3F)<<6 | rune(s[i+3]&0x3F)
		return c.valid4(i), r
	}
	return false, 0
}

func vEncodeRunes(rs []rune) string { return string(rs) }

func (c *vReCtx) match(re *syntax.Regexp, i, j int) bool {
	key := vReKey{re, i, j, 0}
	if v, ok := c.memo[key]; ok {
		return v
	}
	var res bool
	switch re.Op {
	case syntax.OpEmptyMatch:
		res = i == j
	case syntax.OpLiteral:
		if re.Flags&syntax.FoldCase != 0 {
			panic("oracle: case folding is outside the modelled regex subset")
		}
		lit := vEncodeRunes(re.Rune)
		if j-i != len(lit) {
			res = false
		} else {
			res = c.s[i:j] == lit
		}
	case syntax.OpCharClass:
		one, r := c.oneRune(i, j)
		in := false
		for k := 0; k+1 < len(re.Rune); k += 2 {
			in = vx.Or(in, vx.And(re.Rune[k] <= r, r <= re.Rune[k+1]))
		}
		res = vx.And(one, in)
	case syntax.OpAnyCharNotNL:
		one, r := c.oneRune(i, j)
		res = vx.And(one, r != '\n')
	case syntax.OpAnyChar:
		res, _ = c.oneRune(i, j)
	case syntax.OpCapture:
		res = c.match(re.Sub[0], i, j)
	case syntax.OpAlternate:
		res = false
		for _, sub := range re.Sub {
			res = vx.Or(res, c.match(sub, i, j))
		}
	case syntax.OpConcat:
		res = c.concat(re, 0, i, j)
	case syntax.OpStar:
		res = c.star(re.Sub[0], i, j)
	case syntax.OpPlus:
		res = false
		for k := i; k <= j; k++ {
			if k == i && i != j {
				continue
			}
			res = vx.Or(res, vx.And(c.match(re.Sub[0], i, k), c.star(re.Sub[0], k, j)))
		}
	case syntax.OpQuest:
		res = c.match(re.Sub[0], i, j)
		if i == j {
			res = true
		}
	case syntax.OpRepeat:
		res = c.repeat(re, 0, i, j)
	case syntax.OpBeginText, syntax.OpBeginLine:
		res = i == j && i == 0
	case syntax.OpEndText:
		res = i == j && j == len(c.s)
	default:
		panic("oracle: regex operator outside the modelled subset: " + re.Op.String())
	}
	c.memo[key] = res
	return res
}

// concat: s[i:j] in L(re.Sub[idx:]).
func (c *vReCtx) concat(re *syntax.Regexp, idx, i, j int) bool {
	if idx == len(re.Sub) {
		return i == j
	}
	key := vReKey{re, i, j, idx + 1}
	if v, ok := c.memo[key]; ok {
		return v
	}
	res := false
	if idx == len(re.Sub)-1 {
		res = c.match(re.Sub[idx], i, j)
	} else {
		for k := i; k <= j; k++ {
			res = vx.Or(res, vx.And(c.match(re.Sub[idx], i, k), c.concat(re, idx+1, k, j)))
		}
	}
	c.memo[key] = res
	return res
}

// star: s[i:j] in L(sub*), using non-empty iterations only.
func (c *vReCtx) star(sub *syntax.Regexp, i, j int) bool {
	if i == j {
		return true
	}
	key := vReKey{sub, i, j, -1}
	if v, ok := c.memo[key]; ok {
		return v
	}
	res := false
	for k := i + 1; k <= j; k++ {
		res = vx.Or(res, vx.And(c.match(sub, i, k), c.star(sub, k, j)))
	}
	c.memo[key] = res
	return res
}

// repeat: s[i:j] in sub{min,max} having already used n iterations.
func (c *vReCtx) repeat(re *syntax.Regexp, n, i, j int) bool {
	if re.Max >= 0 && n > re.Max {
		return false
	}
	key := vReKey{re, i, j, 1000 + n}
	if v, ok := c.memo[key]; ok {
		return v
	}
	res := false
	if i == j && n >= re.Min {
		res = true
	}
	if re.Max < 0 || n < re.Max {
		// one more iteration; empty iterations only help reaching Min
		lo := i + 1
		if n < re.Min {
			lo = i
		}
		if n < 1000-2 {
			for k := lo; k <= j; k++ {
				if k == i {
					// empty iteration
					res = vx.Or(res, vx.And(c.match(re.Sub[0], i, i), c.repeatEmptyRest(re, n+1, i, j)))
					continue
				}
				res = vx.Or(res, vx.And(c.match(re.Sub[0], i, k), c.repeat(re, n+1, k, j)))
			}
		}
	}
	c.memo[key] = res
	return res
}

// repeatEmptyRest avoids infinite recursion on empty iterations: once an
// empty iteration is possible, all remaining mandatory iterations can be empty.
func (c *vReCtx) repeatEmptyRest(re *syntax.Regexp, n, i, j int) bool {
	if n >= re.Min {
		return c.repeat(re, n, i, j)
	}
	return c.repeat(re, re.Min, i, j)
}

// vReFull: the whole of s is in L(re).
func vReFull(re *syntax.Regexp, s string) bool {
	c := &vReCtx{s: s, memo: map[vReKey]bool{}}
	return c.match(re, 0, len(s))
}

// vSegAdmits: segment text s is admitted by a regex-style segment: the
// concatenation of its literals (literally) and bind expressions.
func vSegAdmits(seg *vSeg, s string) bool {
	subs := make([]*syntax.Regexp, 0, len(seg.elems))
	for _, e := range seg.elems {
		if e.isBind {
			subs = append(subs, e.tree)
		} else {
			subs = append(subs, &syntax.Regexp{Op: syntax.OpLiteral, Rune: []rune(e.lit)})
		}
	}
	whole := &syntax.Regexp{Op: syntax.OpConcat, Sub: subs}
	return vReFull(whole, s)
}

// ---------------------------------------------------------------------------
// Candidates and priority keys (concrete per route set and segment count).

type vCand struct {
	route int
	short bool
	k     int
	key   []int
}

func vKeyLess(a, b []int) bool {
	for i := 0; i < len(a) && i < len(b); i++ {
		if a[i] != b[i] {
			return a[i] < b[i]
		}
	}
	return len(a) < len(b)
}

func vCandidates(routes []vRoute, nseg int) []vCand {
	created := map[string]int{}
	order := 0
	for _, r := range routes {
		prefix := ""
		for j, s := range r.segs {
			if j == len(r.segs)-1 {
				break
			}
			prefix += "/" + s.text
			if _, ok := created[prefix]; !ok {
				created[prefix] = order
				order++
			}
		}
	}
	var cands []vCand
	for ri, r := range routes {
		forms := []bool{false}
		if r.optional {
			forms = append(forms, true)
		}
		for _, short := range forms {
			rs := r.segs
			if short {
				rs = rs[:len(rs)-1]
				if len(rs) == 0 {
					// "/?x": the short form is the root itself ("/")
					cands = append(cands, vCand{route: ri, short: true, key: []int{int(vkStatic), ri, 0}})
					continue
				}
			}
			hasMid := false
			for j, s := range rs {
				if s.kind == vkAll && j < len(rs)-1 {
					hasMid = true
				}
			}
			ks := []int{0}
			if hasMid {
				ks = nil
				for k := 1; k <= nseg; k++ {
					ks = append(ks, k)
				}
			}
			for _, k := range ks {
				c := vCand{route: ri, short: short, k: k}
				prefix := ""
				pi := 0
				for j, s := range rs {
					if j < len(rs)-1 {
						prefix += "/" + s.text
						kk := 0
						if s.kind == vkAll {
							kk = k
							pi += k
						} else {
							pi++
						}
						c.key = append(c.key, int(s.kind), created[prefix], kk)
					} else {
						rk := int(s.kind)
						if s.kind == vkAll && nseg-pi > 1 {
							rk = 5 // a final match-all reached only after every continuing alternative
						}
						c.key = append(c.key, rk, ri, 0)
					}
				}
				cands = append(cands, c)
			}
		}
	}
	// insertion sort by key (stable)
	for a := 1; a < len(cands); a++ {
		for b := a; b > 0 && vKeyLess(cands[b].key, cands[b-1].key); b-- {
			cands[b], cands[b-1] = cands[b-1], cands[b]
		}
	}
	return cands
}

// vAdmits: the candidate admits the segment list (a term).
func vAdmits(r *vRoute, c *vCand, segs []string) bool {
	rs := r.segs
	if c.short {
		rs = rs[:len(rs)-1]
		if len(rs) == 0 {
			return vx.And(len(segs) == 1, segs[0] == "")
		}
	}
	pi := 0
	ok := true
	for j := range rs {
		s := &rs[j]
		last := j == len(rs)-1
		if pi >= len(segs) {
			return false
		}
		switch s.kind {
		case vkStatic:
			ok = vx.And(ok, segs[pi] == s.lit)
			pi++
		case vkPlace:
			pi++
		case vkRegex:
			ok = vx.And(ok, vSegAdmits(s, segs[pi]))
			pi++
		case vkAll:
			if last {
				n := len(segs) - pi
				if n < 1 {
					return false
				}
				if n > 1 && s.capture > 0 && n > s.capture {
					return false
				}
				pi = len(segs)
			} else {
				if c.k < 1 || (s.capture > 0 && c.k > s.capture) {
					return false
				}
				pi += c.k
			}
		}
	}
	if pi != len(segs) {
		return false
	}
	return ok
}

// vSpecWinner: index of the route the documented priority selects, -1 if none.
// Also returns, per candidate, the term "this candidate is the selected one".
func vSpecWinner(routes []vRoute, segs []string) (int, []vCand, []bool) {
	return vSpecWinnerGated(routes, segs, nil)
}

// vSpecWinnerGated: as vSpecWinner, but route i is eligible only if gate[i]
// (header constraints, C09); every form of a route shares its gate.
func vSpecWinnerGated(routes []vRoute, segs []string, gate []bool) (int, []vCand, []bool) {
	cands := vCandidates(routes, len(segs))
	admit := make([]bool, len(cands))
	for i := range cands {
		admit[i] = vAdmits(&routes[cands[i].route], &cands[i], segs)
		if gate != nil {
			admit[i] = vx.And(admit[i], gate[cands[i].route])
		}
	}
	winner := -1
	for i := len(cands) - 1; i >= 0; i-- {
		winner = vx.Ite(admit[i], cands[i].route, winner)
	}
	best := make([]bool, len(cands))
	earlier := false
	for i := range cands {
		best[i] = vx.And(admit[i], vx.Not(earlier))
		earlier = vx.Or(earlier, admit[i])
	}
	return winner, cands, best
}

// ---------------------------------------------------------------------------
// Percent-decoding, once; malformed => raw (reference for C02).

func vIsHex(c byte) bool {
	return (c >= '0' && c <= '9') || (c >= 'a' && c <= 'f') || (c >= 'A' && c <= 'F')
}

func vUnhex(c byte) byte {
	switch {
	case c >= '0' && c <= '9':
		return c - '0'
	case c >= 'a' && c <= 'f':
		return c - 'a' + 10
	}
	return c - 'A' + 10
}

func vDecode1(s string) string {
	n := 0
	for i := 0; i < len(s); i++ {
		if s[i] == '%' {
			if i+2 >= len(s) || !vIsHex(s[i+1]) || !vIsHex(s[i+2]) {
				return s
			}
			n++
			i += 2
		}
	}
	if n == 0 {
		return s
	}
	out := make([]byte, 0, len(s))
	for i := 0; i < len(s); i++ {
		if s[i] == '%' {
			out = append(out, vUnhex(s[i+1])<<4|vUnhex(s[i+2]))
			i += 2
		} else {
			out = append(out, s[i])
		}
	}
	return string(out)
}

func vHasPct(s string) bool {
	r := false
	for i := 0; i < len(s); i++ {
		r = vx.Or(r, s[i] == '%')
	}
	return r
}

// vParamsOK: the parameter map holds, for every bind of route r under
// candidate alignment c, exactly what the pattern captured (decoded once).
func vParamsOK(r *vRoute, c *vCand, segs []string, params Params) bool {
	rs := r.segs
	if c.short {
		rs = rs[:len(rs)-1]
	}
	pi := 0
	ok := true
	for j := range rs {
		s := &rs[j]
		last := j == len(rs)-1
		if pi >= len(segs) {
			return false
		}
		switch s.kind {
		case vkStatic:
			pi++
		case vkPlace:
			v, present := params[s.bind]
			ok = vx.And(ok, vx.And(present, v == vDecode1(segs[pi])))
			pi++
		case vkAll:
			n := c.k
			if last {
				n = len(segs) - pi
			}
			if n < 1 || pi+n > len(segs) {
				return false
			}
			raw := segs[pi]
			for q := 1; q < n; q++ {
				raw += "/" + segs[pi+q]
			}
			v, present := params[s.bind]
			ok = vx.And(ok, vx.And(present, v == vDecode1(raw)))
			pi += n
		case vkRegex:
			seg := segs[pi]
			rel := true
			p := 0
			for _, e := range s.elems {
				if !e.isBind {
					if p+len(e.lit) > len(seg) {
						rel = false
						break
					}
					rel = vx.And(rel, seg[p:p+len(e.lit)] == e.lit)
					p += len(e.lit)
					continue
				}
				v, present := params[e.bind]
				if !present || p+len(v) > len(seg) {
					rel = false
					break
				}
				rel = vx.And(rel, vx.And(seg[p:p+len(v)] == v, vReFull(e.tree, v)))
				p += len(v)
			}
			if p != len(seg) {
				rel = false
			}
			// the relation is stated on raw text; with escapes in the segment the
			// values are decoded afterwards and only their presence is checked
			ok = vx.And(ok, vx.Or(vHasPct(seg), rel))
			pi++
		}
	}
	return ok
}

func vAnd(a, b bool) bool { return vx.And(a, b) }
func vOr(a, b bool) bool  { return vx.Or(a, b) }

func syntaxParse(expr string) (*syntax.Regexp, error) { return syntax.Parse(expr, syntax.Perl) }

// vSplitPath strips leading slashes and splits on '/', by its own scan.
func vSplitPath(path string) []string {
	p := 0
	for p < len(path) && path[p] == '/' {
		p++
	}
	var segs []string
	start := p
	for i := p; i < len(path); i++ {
		if path[i] == '/' {
			segs = append(segs, path[start:i])
			start = i + 1
		}
	}
	segs = append(segs, path[start:])
	return segs
}
