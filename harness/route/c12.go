//go:build verif

package route

// C12 harness: URL building substitutes binds exactly and simultaneously.

import (
	"net/http"
	"strings"

	"github.com/flamego/flamego/internal/vx"
)

func init() {
	vx.Register("VH_C12_urlpath", VH_C12_urlpath)
}

// vSkeleton renders what URL building must produce before substitution, from
// the statement: every bind visible as {bind}, annotations dropped, the
// optional segment only when asked. It returns the pieces: literal text and
// bind names in order.
type vPiece struct {
	lit    string
	bind   string
	isBind bool
}

func vSkeleton(r *vRoute, withOptional bool) []vPiece {
	var out []vPiece
	for j := range r.segs {
		s := &r.segs[j]
		if r.optional && j == len(r.segs)-1 && !withOptional {
			break
		}
		out = append(out, vPiece{lit: "/"})
		switch s.kind {
		case vkStatic:
			out = append(out, vPiece{lit: s.lit})
		case vkPlace, vkAll:
			out = append(out, vPiece{bind: s.bind, isBind: true})
		case vkRegex:
			for _, e := range s.elems {
				if e.isBind {
					out = append(out, vPiece{bind: e.bind, isBind: true})
				} else {
					out = append(out, vPiece{lit: e.lit})
				}
			}
		}
	}
	return out
}

func VH_C12_urlpath() {
	text := vx.Param("route")
	vCheckParser(text)
	ast, err := vParseRoute(text)
	if err != nil {
		panic("setup: route does not parse: " + text)
	}
	leaf, err := AddRoute(NewTree(), ast, func(http.ResponseWriter, *http.Request, Params) {})
	if err != nil {
		panic("setup: AddRoute: " + err.Error())
	}
	desc := vDescribe(ast)
	if vx.ParamInt("maporders") == 1 {
		vx.MapOrders(true)
	}
	n := vx.ParamInt("vlen")

	vals := map[string]string{}
	binds := map[string]bool{}
	for _, p := range vSkeleton(&desc, true) {
		if p.isBind && !binds[p.bind] {
			binds[p.bind] = true
			if vx.Bool() {
				vals[p.bind] = vx.String(n)
			}
		}
	}
	if vx.Bool() {
		vals["nosuchbind"] = vx.String(n) // unknown names are ignored
	}
	withOptional := vx.Bool()

	got := leaf.URLPath(vals, withOptional)

	want := ""
	for _, p := range vSkeleton(&desc, withOptional) {
		if !p.isBind {
			want += p.lit
			continue
		}
		if v, ok := vals[p.bind]; ok {
			want += v // all at once: a supplied value is never re-scanned
		} else {
			want += "{" + p.bind + "}"
		}
	}
	vx.Assert(got == want, "C12: every {bind} is replaced by its value simultaneously, missing ones stay visible, unknown names are ignored, annotations are dropped, the optional segment is included only when asked")
	vx.Observe("urlpath", strings.Count(text, "{"), withOptional, got)
}
