//go:build verif

package route

// C06 (rendering clause, real code): Segment.String / Route.String on ASTs of
// every shape of the job's template with every token's content symbolic.

import (
	"github.com/flamego/flamego/internal/vx"
)

func init() {
	vx.Register("VH_C06_render", VH_C06_render)
}

// vCanonical renders a route from its AST by the statement's rule: the
// concatenation of the tokens with exactly one blank after ':' and ','.
func vCanonical(r *Route) string {
	out := ""
	for _, s := range r.Segments {
		out += "/"
		if s.Optional {
			out += "?"
		}
		out += vSegText(s)
	}
	return out
}

func VH_C06_render() {
	text := vx.Param("route")
	vCheckParser(text)
	ast, err := vParseRoute(text)
	if err != nil {
		panic("setup: route does not parse: " + text)
	}
	n := vx.ParamInt("toklen")
	// every identifier, bind name, literal value and regex text becomes symbolic
	fresh := func() string { return vx.String(n) }
	if vx.ParamInt("fixed") == 1 {
		// the enumerated shape families: one symbolic byte per token (structure is what varies there)
		fresh = func() string { return vx.StringN(1) }
	}
	for _, sg := range ast.Segments {
		for i := range sg.Elements {
			e := &sg.Elements[i]
			if e.Ident != nil {
				v := fresh()
				e.Ident = &v
			}
			if e.BindIdent != nil {
				v := fresh()
				e.BindIdent = &v
			}
			if e.BindParameters != nil {
				for j := range e.BindParameters.Parameters {
					p := &e.BindParameters.Parameters[j]
					p.Ident = fresh()
					if p.Value.Literal != nil {
						v := fresh()
						p.Value.Literal = &v
					}
					if p.Value.Regex != nil {
						v := fresh()
						p.Value.Regex = &v
					}
				}
			}
		}
	}
	want := vCanonical(ast)
	got := ast.String()
	vx.Assert(got == want, "C06: rendering gives the tokens in order with one blank after ':' and ','")
	vx.Assert(ast.String() == got, "C06: rendering is stable (cached)")
	for _, sg := range ast.Segments {
		s1 := sg.String()
		vx.Assert(sg.String() == s1 && len(s1) > 0 && s1[0] == '/', "C06: a segment renders with its leading slash, stably")
	}
	if !vx.Symbolic() {
		// with concrete tokens drawn from the grammar's alphabet the canonical text
		// parses to the same structure and renders to itself
		real, perr := NewParser()
		if perr == nil {
			if back, err := real.Parse(text); err == nil {
				canon := back.String()
				again, err2 := real.Parse(canon)
				vx.Assert(err2 == nil && again.String() == canon, "C06: the canonical form parses and renders to itself")
			}
		}
	}
	vx.Observe("render", got)
}
