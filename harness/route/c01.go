//go:build verif

package route

// Routing harness: decides C01 (dispatch by documented priority), C02 (bind
// values) and the tree-level part of C07 (no panic) on the same runs.

import (
	"net/http"
	"strings"

	"github.com/flamego/flamego/internal/vx"
)

func init() {
	vx.Register("VH_Route_setup", VH_Route_setup)
	vx.Register("VH_Route_match", VH_Route_match)
}

var (
	vTree   Tree
	vRoutes []vRoute
	vHit    int
)

// VH_Route_setup registers the configuration's routes with the real
// AddRoute; the structured description for the oracle is derived from the
// same parsed text by the oracle's own classification.
func VH_Route_setup() {
	texts := strings.Split(vx.Param("routes"), "\n")
	vTree = NewTree()
	vRoutes = nil
	for idx, t := range texts {
		vCheckParser(t)
		ast, err := vParseRoute(t)
		if err != nil {
			panic("setup: route does not parse: " + t)
		}
		idx := idx
		_, err = AddRoute(vTree, ast, func(http.ResponseWriter, *http.Request, Params) { vHit = idx })
		if err != nil {
			panic("setup: AddRoute(" + t + "): " + err.Error())
		}
		vRoutes = append(vRoutes, vDescribe(ast))
	}
}

func VH_Route_match() {
	n := vx.ParamInt("n")
	// the request path is a concrete prefix (possibly empty) followed by up to n
	// arbitrary bytes; the prefix only moves the symbolic window deeper into a tree
	path := vx.Param("prefix") + vx.String(n)
	segs := vSplitPath(path)

	leaf, params, ok := vTree.Match(path, nil)
	impl := -1
	if ok {
		vHit = -1
		leaf.Handler()(nil, nil, nil)
		impl = vHit
	}

	spec, cands, best := vSpecWinner(vRoutes, segs)
	vx.Assert(impl == spec, "C01: the route chosen is the one the documented priority selects (or none iff none admits)")

	if ok {
		vx.Reach("matched")
		good := false
		for i := range cands {
			if cands[i].route != impl {
				continue
			}
			good = vx.Or(good, vx.And(best[i], vParamsOK(&vRoutes[impl], &cands[i], segs, params)))
		}
		vx.Assert(good, "C02: bind parameters are exactly what the matched route's pattern captured, decoded once")
		if vx.ParamInt("roundtrip") == 1 {
			// C12 inverse: building with the request's parameters (optional segment iff
			// the request used it) reproduces the request path, for %-free paths.
			r := &vRoutes[impl]
			used := len(segs) >= len(r.segs)
			back := leaf.URLPath(map[string]string(params), used)
			norm := ""
			for _, sg := range segs {
				norm += "/" + sg
			}
			vx.Assert(vx.Or(vHasPct(path), back == norm), "C12: URL building with a request's parameters reproduces the request path")
		}
	} else {
		vx.Reach("not-found")
	}
	vx.Observe("match", path, impl, map[string]string(params))
}
