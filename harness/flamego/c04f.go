//go:build verif

package flamego

// C04 at framework level: request-scoped values are visible to later handlers
// of the same request only; the built-in automatic wrapping (ContextInvoker,
// http handler funcs, teapot) resolves exactly what the reflective path does.

import (
	"errors"
	"io"
	"net/http"
	"net/url"
	"reflect"

	"github.com/flamego/flamego/internal/vx"
)

func init() {
	vx.Register("VH_C04_request", VH_C04_request)
	vx.Register("VH_C04_results", VH_C04_results)
}

type vScoped struct{ tag int }

// vWrapCtx decorates the request Context; a middleware may re-register it for
// the Context type in the request scope.
type vWrapCtx struct {
	Context
	tag int
}

func VH_C04_request() {
	appHas := vx.Bool()     // the application scope maps a *vScoped
	reqMaps := vx.Bool()    // the first handler maps one in the request scope
	secondAsks := vx.Bool() // the second handler takes it as a parameter (else via c.Value-free path)
	wrapKind := vx.Choice(4)
	remap := vx.Bool() // the first handler re-registers a decorated Context for the Context type

	f := NewWithLogger(io.Discard)
	if appHas {
		f.Map(&vScoped{tag: 1})
	}
	var seen []int
	var wrapSeen []string
	var wrapped *vWrapCtx
	f.Use(func(c Context) {
		if reqMaps {
			c.Map(&vScoped{tag: 2})
		}
		if remap {
			wrapped = &vWrapCtx{Context: c, tag: 7}
			c.MapTo(wrapped, (*Context)(nil))
		}
	})
	if secondAsks {
		f.Use(func(s *vScoped) { seen = append(seen, s.tag) })
	}
	// the four handler shapes that are wrapped automatically, each must receive
	// this request's own context / writer / request
	var theCtx, reflCtx Context
	f.Use(func(c Context, _ *http.Request) { reflCtx = c }) // resolved through reflection
	f.Use(func(c Context) { theCtx = c })                   // wrapped automatically
	switch wrapKind {
	case 0:
		f.Get("/", func(c Context) {
			if c == theCtx {
				wrapSeen = append(wrapSeen, "ctx")
			}
		})
	case 1:
		f.Get("/", func(w http.ResponseWriter, r *http.Request) {
			if w == http.ResponseWriter(theCtx.ResponseWriter()) && r == theCtx.Request().Request {
				wrapSeen = append(wrapSeen, "http")
			}
		})
	case 2:
		f.Get("/", http.HandlerFunc(func(w http.ResponseWriter, r *http.Request) {
			if w == http.ResponseWriter(theCtx.ResponseWriter()) && r == theCtx.Request().Request {
				wrapSeen = append(wrapSeen, "handlerfunc")
			}
		}))
	case 3:
		f.Get("/", func() (int, string) {
			wrapSeen = append(wrapSeen, "teapot")
			return 418, "t"
		})
	}

	serve := func() (panicked bool) {
		defer func() {
			if recover() != nil {
				panicked = true
			}
		}()
		f.ServeHTTP(&vSpy{}, &http.Request{Method: "GET", URL: &url.URL{Path: "/"}, Header: http.Header{}})
		return
	}
	vx.PoolReuse(true) // whatever the framework recycles through a sync.Pool may come back for the next request
	p1 := serve()
	wantTag := 0
	if reqMaps {
		wantTag = 2
	} else if appHas {
		wantTag = 1
	}
	if secondAsks && wantTag == 0 {
		vx.Assert(p1 && len(seen) == 0, "C04: an unresolvable parameter fails the invocation and the handler body does not run")
	} else {
		vx.Assert(!p1, "C04: resolvable parameters: no failure")
		if secondAsks {
			vx.Assert(len(seen) == 1 && seen[0] == wantTag, "C04: the request scope is consulted before the application scope")
		}
		vx.Assert(theCtx == reflCtx, "C04: an automatically wrapped func(Context) receives the value a reflective call resolves for Context")
		if remap {
			vx.Assert(reflCtx == Context(wrapped), "C04: a later registration for Context in the request scope replaces the earlier one")
		}
		vx.Assert(len(wrapSeen) == 1, "C04: an automatically wrapped handler runs exactly once with this request's own context, writer and request")
	}
	// a second request: nothing mapped during the first is visible
	reqMaps = false
	remap = false
	seen = nil
	p2 := serve()
	if secondAsks {
		if appHas {
			vx.Assert(!p2 && len(seen) == 1 && seen[0] == 1, "C04: values mapped during a request are visible to that request only")
		} else {
			vx.Assert(p2 && len(seen) == 0, "C04: values mapped during a request are visible to that request only (second request cannot resolve it)")
		}
	}
	vx.PoolReuse(false)
	vx.Observe("request", appHas, secondAsks, wrapKind, remap, p1, p2)
}

var vErrResult = errors.New("result")

// VH_C04_results: what a handler returns reaches the ReturnHandler unchanged -
// same number of values, same static kinds, same nil-ness - whether the handler
// is called through the built-in automatic wrapping or through reflection.
func VH_C04_results() {
	kind := vx.Choice(4)
	isNil := vx.Bool()
	var err error
	if !isNil {
		err = vErrResult
	}
	describe := func(vals []reflect.Value) []int {
		out := []int{len(vals)}
		for _, v := range vals {
			if !v.IsValid() {
				out = append(out, -1)
				continue
			}
			k := int(v.Kind())
			out = append(out, k)
			if v.Kind() == reflect.Interface || v.Kind() == reflect.Ptr {
				if v.IsNil() {
					out = append(out, 0)
				} else {
					out = append(out, 1)
				}
			}
		}
		return out
	}
	run := func(h Handler) []int {
		var got []int
		f := NewWithLogger(io.Discard)
		f.Map(ReturnHandler(func(c Context, vals []reflect.Value) { got = describe(vals) }))
		f.Get("/", h)
		f.ServeHTTP(&vSpy{}, &http.Request{Method: "GET", URL: &url.URL{Path: "/"}, Header: http.Header{}})
		return got
	}
	var direct, reflective Handler
	switch kind {
	case 0:
		direct = func() error { return err }
		reflective = func(*http.Request) error { return err }
	case 1:
		direct = func(Context) error { return err }
		reflective = func(Context, *http.Request) error { return err }
	case 2:
		direct = func() (int, string) { return 7, "x" }
		reflective = func(*http.Request) (int, string) { return 7, "x" }
	case 3:
		direct = func() (string, error) { return "x", err }
		reflective = func(*http.Request) (string, error) { return "x", err }
	}
	a, b := run(direct), run(reflective)
	same := len(a) == len(b) && len(a) > 0
	if same {
		for i := range a {
			if a[i] != b[i] {
				same = false
			}
		}
	}
	vx.Assert(same, "C04: a handler's results reach the return handler unchanged, identically through the built-in automatic wrapping and through reflection")
	vx.Observe("results", kind, isNil, a)
}
