//go:build verif

package flamego

// C03 harness: the handler chain of a real Flame instance (middleware, group
// handlers, route handlers, action) with every handler's behaviour symbolic,
// compared event by event with a reference model of the statement.

import (
	gocontext "context"
	"io"
	"net/http"
	"net/url"
	"time"

	"github.com/flamego/flamego/internal/vx"
)

func init() {
	vx.Register("VH_C03_chain", VH_C03_chain)
	vx.Register("VH_C03_step", VH_C03_step)
}

// VH_C03_step: run() entered from an ARBITRARY chain position (index symbolic
// in [0, n+1]) with an arbitrary written/cancelled state and quiet handlers:
// it starts exactly the handlers index..n (n = the action) in order, none
// twice; only the first one if a status had already been sent; none if the
// context is cancelled; and it leaves the index just past the last one started.
// Chains longer than the k-step bound are covered by this lemma modulo the
// state abstraction (index, written, cancelled).
func VH_C03_step() {
	n := vx.ParamInt("n")
	idx := vx.Int(0, n+1)
	written := vx.Bool()
	cancelled := vx.Bool()
	hasAction := vx.Bool()
	var ran []int
	var hs []Handler
	for i := 0; i < n; i++ {
		i := i
		hs = append(hs, ContextInvoker(func(Context) { ran = append(ran, i) }))
	}
	ctx := &vReqCtx{done: make(chan struct{})}
	if cancelled {
		close(ctx.done)
	}
	spy := &vSpy{}
	req := (&http.Request{Method: "GET", URL: &url.URL{Path: "/"}, Header: http.Header{}}).WithContext(ctx)
	c := newContext(spy, req, nil, hs, nil).(*context)
	if hasAction {
		c.setAction(ContextInvoker(func(Context) { ran = append(ran, n) }))
	}
	if written {
		c.ResponseWriter().WriteHeader(204)
	}
	c.index = idx
	c.run()

	var want []int
	pos := idx
	if !cancelled {
		for pos <= n {
			if pos == n && !hasAction {
				pos++ // the missing action is stepped over
				break
			}
			want = append(want, pos)
			pos++
			if written {
				break
			}
		}
	}
	same := len(ran) == len(want)
	if same {
		for i := range ran {
			if ran[i] != want[i] {
				same = false
			}
		}
	}
	vx.Assert(same, "C03/step: from any position run() starts exactly the remaining handlers in order (one if already written, none if cancelled)")
	vx.Assert(c.index == pos, "C03/step: the position ends just past the last handler started (unchanged if cancelled)")
	c.Next()
	c.Next()
	if !cancelled && !written {
		vx.Assert(len(ran) == len(want), "C03/step: further Next() calls do nothing once the chain is exhausted")
	}
	vx.Observe("step", idx, written, cancelled, hasAction, ran)
}

// vReqCtx is a request context whose cancellation the harness controls.
type vReqCtx struct {
	done chan struct{}
	err  error // what Err() reports (non-nil once cancelled, for the harnesses that set it)
}

func (c *vReqCtx) Deadline() (time.Time, bool)       { return time.Time{}, false }
func (c *vReqCtx) Done() <-chan struct{}             { return c.done }
func (c *vReqCtx) Err() error                        { return c.err }
func (c *vReqCtx) Value(key interface{}) interface{} { return nil }

var _ gocontext.Context = (*vReqCtx)(nil)

type vBehaviour struct {
	kind    int  // 0: func(Context) (fast invoker); 1: func(Context) string (reflective call + return handler)
	pre     bool // writes before calling Next
	nNext   int  // number of Next() calls
	post    bool // writes after the Next calls
	retBody bool // kind 1: returns a non-empty string (rendered => written)
	cancel  bool // cancels the request context before returning
	swap    bool // first replaces the request's context by a fresh one (a timeout/scope middleware): later cancellations act on that one
}

type vChainRun struct {
	b          []vBehaviour
	events     []int // +i+1 = handler i entered, -(i+1) = handler i left
	written    bool
	cancelled  bool
	started    int
	ctx        *vReqCtx
	drawn      []bool
	withCancel bool
	withSwap   bool // job parameter cancel=2: handlers may also replace the request's context
	deep       int  // the first `deep` handlers may call Next() twice, the others at most once
	share      *vChainRun
	refBody    []byte // reference run: what must reach the client, in order
	copy       bool   // job parameter copy=1: handlers write with io.Copy from a plain reader
}

func (r *vChainRun) ev(e int) { r.events = append(r.events, e) }

// beh returns handler i's behaviour, drawing it on first use (shared between
// the real run and the reference run).
func (r *vChainRun) beh(i int) vBehaviour {
	if r.share != nil {
		return r.share.beh(i)
	}
	if !r.drawn[i] {
		r.drawn[i] = true
		b := &r.b[i]
		b.pre = vx.Bool()
		if i < r.deep {
			b.nNext = vx.Choice(3)
		} else {
			b.nNext = vx.Choice(2)
		}
		if b.nNext > 0 {
			b.post = vx.Bool()
		}
		if b.kind == 1 {
			b.retBody = vx.Bool()
		}
		if r.withCancel {
			b.cancel = vx.Bool()
			if r.withSwap {
				b.swap = vx.Bool()
			}
		}
	}
	return r.b[i]
}

// ---- reference model, from the statement -----------------------------------

// refRun: start the handlers not yet started, in order, each at most once;
// stop when the context is cancelled; after a handler returns continue only
// if nothing has been written.
func (r *vChainRun) refRun() {
	for r.started < len(r.b) {
		if r.cancelled {
			return
		}
		i := r.started
		r.started++
		r.refHandler(i)
		if r.written {
			return
		}
	}
}

func (r *vChainRun) refHandler(i int) {
	b := r.beh(i)
	r.ev(i + 1)
	if b.pre {
		r.written = true
		r.refBody = append(r.refBody, 'p')
	}
	for k := 0; k < b.nNext; k++ {
		r.refRun()
	}
	if b.post {
		r.written = true
		r.refBody = append(r.refBody, 'q')
	}
	if b.cancel {
		r.cancelled = true
	}
	r.ev(-(i + 1))
	if b.kind == 1 && b.retBody {
		r.written = true // the returned value is rendered before the chain goes on
		r.refBody = append(r.refBody, 'r')
	}
}

// ---- the real thing ---------------------------------------------------------

func (r *vChainRun) body(i int, c Context) string {
	b := r.beh(i)
	r.ev(i + 1)
	if b.swap && !r.cancelled {
		nc := &vReqCtx{done: make(chan struct{})}
		c.Request().Request = c.Request().Request.WithContext(nc)
		r.ctx = nc
	}
	write := func(t string) {
		if r.copy {
			// the body is streamed with io.Copy from a plain reader (a file, an upstream response): the route an
			// io.ReaderFrom fast path takes; the underlying spy is an io.ReaderFrom like net/http's own writer
			_, _ = io.Copy(c.ResponseWriter(), &vPlainReader{data: []byte(t)})
			return
		}
		_, _ = c.ResponseWriter().Write([]byte(t))
	}
	if b.pre {
		write("p")
	}
	for k := 0; k < b.nNext; k++ {
		c.Next()
	}
	if b.post {
		write("q")
	}
	if b.cancel && !r.cancelled {
		r.cancelled = true
		close(r.ctx.done)
	}
	r.ev(-(i + 1))
	if b.retBody {
		return "r"
	}
	return ""
}

func (r *vChainRun) handler(i int) Handler {
	if r.b[i].kind == 1 {
		return func(c Context) string { return r.body(i, c) }
	}
	return func(c Context) { r.body(i, c) }
}

func VH_C03_chain() {
	nmw, ngrp, nrt := vx.ParamInt("mw"), vx.ParamInt("grp"), vx.ParamInt("rt")
	action := vx.ParamInt("action") == 1
	n := nmw + ngrp + nrt
	total := n
	if action {
		total++
	}
	impl := &vChainRun{ctx: &vReqCtx{done: make(chan struct{})}}
	for i := 0; i < total; i++ {
		// the handler's Go type must be known when it is registered; the rest of
		// its behaviour is drawn the first time it runs (beh), so behaviours of
		// handlers that never start are not enumerated
		kind := 0
		if ks := vx.Param("kinds"); i < len(ks) && ks[i] == '1' {
			kind = 1
		}
		impl.b = append(impl.b, vBehaviour{kind: kind})
	}
	impl.drawn = make([]bool, total)
	impl.withCancel = vx.ParamInt("cancel") >= 1
	impl.withSwap = vx.ParamInt("cancel") == 2
	impl.deep = vx.ParamInt("deep")
	impl.copy = vx.ParamInt("copy") == 1
	ref := &vChainRun{b: impl.b, drawn: impl.drawn, share: impl}

	f := NewWithLogger(io.Discard)
	method := vx.Param("method") // "" = GET; HEAD: the routes are GET routes with AutoHead on (a body write still counts as written)
	if method == "" {
		method = "GET"
	}
	if method == "HEAD" {
		f.AutoHead(true)
	}
	k := 0
	for j := 0; j < nmw; j++ {
		f.Use(impl.handler(k))
		k++
	}
	var grp []Handler
	for j := 0; j < ngrp; j++ {
		grp = append(grp, impl.handler(k))
		k++
	}
	var rt []Handler
	for j := 0; j < nrt; j++ {
		rt = append(rt, impl.handler(k))
		k++
	}
	if ngrp >= 2 {
		// one group per group handler, nested; a sibling route and a sibling group are
		// registered after the route under test (their handlers must never run for it)
		other := func(c Context) { impl.ev(99) }
		var nest func(level int)
		nest = func(level int) {
			if level == ngrp {
				f.Get("/r", rt...)
				f.Get("/sibling", other)
				return
			}
			path := ""
			if level == 0 {
				path = "/g"
			}
			f.Group(path, func() {
				nest(level + 1)
				if level == ngrp-1 {
					f.Group("/x", func() { f.Get("/y", other) }, other)
				}
			}, grp[level])
		}
		nest(0)
	} else if ngrp > 0 {
		f.Group("/g", func() { f.Get("/r", rt...) }, grp...)
	} else {
		f.Get("/g/r", rt...)
	}
	if action {
		f.Action(impl.handler(k))
	}

	spy := &vSpy{}
	req := (&http.Request{Method: method, URL: &url.URL{Path: "/g/r"}, Header: http.Header{}}).WithContext(impl.ctx)
	f.ServeHTTP(spy, req)

	ref.refRun()

	same := len(impl.events) == len(ref.events)
	if same {
		for i := range impl.events {
			if impl.events[i] != ref.events[i] {
				same = false
			}
		}
	}
	vx.Assert(same, "C03: handlers start in chain order, each at most once, none skipped; Next() runs the remainder inside the call; the chain advances on its own only while nothing is written and the context is not cancelled")
	vx.Assert((spy.headers > 0) == ref.written, "C03: something reached the client iff a handler wrote or returned a body")
	if method != "HEAD" {
		vx.Assert(string(spy.body) == string(ref.refBody), "C03: what the handlers wrote and returned reaches the client, in chain order (a returned value is rendered whatever was written before)")
	}
	vx.Observe("chain", impl.events, spy.headers, spy.bytes)
}
