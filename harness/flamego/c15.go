//go:build verif

package flamego

// C15 harness: Recovery contains every panic raised behind it.

import (
	gocontext "context"
	"errors"
	"io"
	"net/http"
	"net/url"

	"github.com/flamego/flamego/internal/vx"
)

func init() {
	vx.Register("VH_C15_recovery", VH_C15_recovery)
}

type vPanicStruct struct {
	A int
	B string
}

// vNilErr: an error type whose method dereferences its receiver; a nil *vNilErr
// wrapped in an error is a classic panic value whose Error() itself panics.
type vNilErr struct{ msg string }

func (e *vNilErr) Error() string { return e.msg }

type vUnmapped struct{ x int } // a type nobody maps: resolving it fails

var vErrSentinel = errors.New("sentinel failure")

func VH_C15_recovery() {
	before := vx.ParamInt("before") // middleware in front of Recovery
	depth := vx.ParamInt("depth")   // pass-through handlers between Recovery and the panicking one
	kind := vx.Choice(13)           // what is thrown (10, 11: values whose message is empty; 12: a message ending in a line break; 6: a panic raised inside a ResponseWriter Before function; 7: http.ErrAbortHandler; 8: the underlying writer panics on an invalid status code the handler returned)
	phase := vx.Choice(2)           // 0: before the handler wrote anything, 1: after its own write
	if kind == 6 || kind == 8 {
		vx.Assume(phase == 0) // these cases have no "after its own write" phase
	}
	badCode := 0
	if kind == 8 {
		badCode = vx.Int(0, 99)
	}
	early := vx.Bool() // a middleware in front of Recovery already sent a status
	s0 := vx.Int(100, 999)
	envc := vx.Choice(3)
	cancelFirst := vx.Bool() // the request context is cancelled (deadline, client gone) just before the panic
	refl := vx.Bool()        // the panicking handler is called through reflection (inject.callInvoke) instead of the ContextInvoker fast path
	nested := vx.Bool()      // pass-through handlers call Next() explicitly (panic inside nested Next) or just return

	envs := []EnvType{EnvTypeDev, EnvTypeProd, EnvTypeTest}
	// the mode that counts is the one in force when the panic happens: the
	// application is built under another, symbolic, mode
	SetEnv(envs[vx.Choice(3)])
	defer SetEnv(EnvTypeDev)

	f := NewWithLogger(io.Discard)
	armed := true
	var post []int // code after Next() of the middleware in front of Recovery
	for i := 0; i < before; i++ {
		i := i
		f.Use(func(c Context) {
			if i == 0 && early && armed {
				c.ResponseWriter().WriteHeader(s0)
			}
			c.Next()
			post = append(post, i)
		})
	}
	f.Use(Recovery())
	for i := 0; i < depth; i++ {
		f.Use(func(c Context) {
			if nested {
				c.Next()
			}
		})
	}
	thrower := func(c Context) {
		if !armed {
			_, _ = c.ResponseWriter().Write([]byte("ok"))
			return
		}
		if phase == 1 {
			_, _ = c.ResponseWriter().Write([]byte("p"))
		}
		if cancelFirst {
			rc := c.Request().Context().(*vReqCtx)
			rc.err = gocontext.Canceled
			close(rc.done)
		}
		switch kind {
		case 0:
			panic("boom")
		case 1:
			panic(vErrSentinel)
		case 2:
			var m map[string]int
			m["x"] = 1 // runtime error: assignment to entry in nil map
		case 3:
			panic(vPanicStruct{7, "s"})
		case 4:
			var arr []int
			_ = arr[c.ResponseWriter().Size()+3] // runtime error: index out of range
		case 7:
			panic(http.ErrAbortHandler)
		case 10:
			panic("")
		case 11:
			panic(errors.New(""))
		case 12:
			panic("two\nlines\n")
		case 9:
			var ne *vNilErr
			var err error = ne
			panic(err) // rendering this value calls a method that panics in turn
		case 6:
			// the handler registers a before-function that panics, then writes
			c.ResponseWriter().Before(func(ResponseWriter) { panic("hook") })
			_, _ = c.ResponseWriter().Write([]byte("x"))
		}
	}
	if kind == 8 {
		// the handler returns a status net/http refuses: the underlying writer panics inside WriteHeader
		f.Get("/", func() (int, string) {
			if !armed {
				return 200, "ok"
			}
			return badCode, "x"
		})
	} else if kind == 5 {
		// failed dependency resolution: the route handler wants a type nobody mapped
		f.Get("/", func(c Context, u *vUnmapped) {})
	} else if refl {
		f.Get("/", func(c Context, _ *http.Request) string { thrower(c); return "" })
	} else {
		f.Get("/", thrower)
	}

	SetEnv(envs[envc])
	spy := &vSpy{strict: kind == 8}
	req := (&http.Request{Method: "GET", URL: &url.URL{Path: "/"}, Header: http.Header{}}).WithContext(&vReqCtx{done: make(chan struct{})})
	escaped := false
	func() {
		defer func() {
			if recover() != nil {
				escaped = true
			}
		}()
		f.ServeHTTP(spy, req)
	}()
	vx.Assert(!escaped, "C15: no panic escapes ServeHTTP when Recovery is installed")

	// Once a status has been sent the chain no longer advances on its own (C03):
	// the panicking handler is reached only through explicit Next() calls.
	reaches := !(early && before > 0) || depth == 0 || nested
	if !reaches {
		vx.Assert(spy.headers == 1 && spy.firstCode == s0 && spy.bytes == 0, "C15: (panic site not reached) the early status stands")
		vx.Observe("not-reached", kind, early, nested)
		return
	}
	if kind == 8 && early && before > 0 {
		// the status was sent earlier: the returned code is ignored by the writer, nothing panics
		vx.Assert(spy.headers == 1 && spy.firstCode == s0 && string(spy.body) == "x", "C15: (invalid code returned after the status) normal response")
		vx.Observe("code-ignored", kind, early)
		return
	}
	if kind == 6 && early && before > 0 {
		// the status was sent before the before-function was registered: it never runs, nothing panics
		vx.Assert(spy.headers == 1 && spy.firstCode == s0 && string(spy.body) == "x", "C15: (before-function registered after the status) normal response")
		vx.Observe("hook-not-run", kind, early)
		return
	}
	vx.Reach("panic-recovered")

	wroteBefore := phase == 1 && kind != 5
	switch {
	case early && before > 0:
		vx.Assert(spy.headers == 1 && spy.firstCode == s0, "C15: a status already sent is kept")
	case wroteBefore:
		vx.Assert(spy.headers == 1 && spy.firstCode == 200, "C15: a status already sent by the panicking handler is kept")
	default:
		vx.Assert(spy.headers == 1 && spy.firstCode == 500, "C15: the client gets status 500 if no status had been sent yet")
	}
	if envs[envc] != EnvTypeDev {
		want := "Internal Server Error"
		if wroteBefore {
			want = "p" + want
		}
		vx.Assert(string(spy.body) == want, "C15: outside development mode the body carries no panic detail")
	} else {
		vx.Assert(spy.bytes > 0, "C15: development mode renders the panic")
	}
	ok := len(post) == before
	for i := range post {
		if post[i] != before-1-i {
			ok = false
		}
	}
	vx.Assert(ok, "C15: middleware placed before Recovery completes its code after Next()")

	// a later request is served as if nothing had happened
	armed = false
	spy2 := &vSpy{}
	post = nil
	if kind != 5 {
		f.ServeHTTP(spy2, &http.Request{Method: "GET", URL: &url.URL{Path: "/"}, Header: http.Header{}})
		vx.Assert(spy2.headers == 1 && spy2.firstCode == 200 && string(spy2.body) == "ok" && len(post) == before,
			"C15: later requests are served as if nothing had happened")
	}
	nbytes := spy.bytes
	if envs[envc] == EnvTypeDev {
		nbytes = -1 // the development page embeds a stack trace, which is stubbed in the interpreter
	}
	vx.Observe("recovered", kind, phase, early, refl, cancelFirst, envc, spy.firstCode, nbytes, len(post))
}
