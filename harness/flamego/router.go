//go:build verif

package flamego

// Router-level harness: C07 (exactly one chain, never a routing panic),
// C09 (header constraints), C10 (static shortcut vs tree), C01/C02 at the
// ServeHTTP level. The router is the real one (newRouter, addRoute, Headers,
// ServeHTTP); the context it creates is replaced by an observer, because what
// happens inside a chain is C03's subject.

import (
	"net/http"
	"net/url"
	"strconv"
	"strings"

	"github.com/flamego/flamego/internal/route"
	"github.com/flamego/flamego/internal/vx"
)

func init() {
	vx.Register("VH_Router_setup", VH_Router_setup)
	vx.Register("VH_Router_serve", VH_Router_serve)
}

type vChain struct {
	id     int
	params map[string]string
	trail  []int // ids of every marker handler of the chain, in order (group handlers, then the route's)
}

var (
	vRouter    *router
	vChains    []vChain
	vMark      int
	vRoutesAPI []*Route   // returned *Route per registration statement
	vRegs      []vReg     // flat registrations (oracle side)
	vHdr       [][]string // per registration statement: header pairs in force (nil = none)
	vCustomNF  bool
	vHdrNames  []string // all constrained header names of the program
)

type vReg struct {
	stmt    int      // registration statement index
	methods []string // methods it was registered for
	path    string   // full path (group prefixes included)
	groups  []int    // ids of the handlers of the groups the statement stands in, outermost first
}

// vCtx observes the chain the router starts.
type vCtx struct {
	Context
	handlers []Handler
	params   route.Params
}

func (c *vCtx) setAction(Handler) {}

func (c *vCtx) run() {
	id := -99
	var trail []int
	for k, h := range c.handlers {
		switch h := h.(type) {
		case func():
			vMark = -99
			h()
			trail = append(trail, vMark)
			if k == len(c.handlers)-1 {
				id = vMark
			}
		case httpHandlerFuncInvoker:
			if k == len(c.handlers)-1 {
				id = -1 // the default not-found chain (http.NotFound)
			}
		}
	}
	own := map[string]string{}
	vx.MapOrders(false) // the harness's own copy loop is not part of what iteration orders are explored for
	for k, v := range c.params {
		own[k] = v
	}
	vx.MapOrders(vx.ParamInt("maporders") == 1)
	vChains = append(vChains, vChain{id: id, params: own, trail: trail})
	if c.params != nil {
		c.params["zz-note"] = "1" // a handler may keep a note in the bind parameters of its own request
	}
}

func vMarker(id int) Handler { return func() { vMark = id } }

var vAllMethods = []string{"GET", "POST", "PUT", "DELETE", "PATCH", "OPTIONS", "HEAD", "CONNECT", "TRACE"}

// VH_Router_setup runs the registration program of the configuration:
//
//	R <methods> <path>     methods: one method, "*" (Any) or a comma list (Routes)
//	H <stmt> k=v;k2=v2     Headers() on the *Route returned by statement <stmt>
//	NF                     user-supplied NotFound
func VH_Router_setup() {
	vRouter = newRouter(func(w http.ResponseWriter, r *http.Request, params route.Params, handlers []Handler, _ urlPather) internalContext {
		return &vCtx{handlers: handlers, params: params}
	}).(*router)
	vRoutesAPI, vRegs, vHdr, vCustomNF, vHdrNames = nil, nil, nil, false, nil
	lines := strings.Split(vx.Param("prog"), "\n")
	pos := 0
	autoHead := false
	var prefix string
	var groupIDs []int
	nextGroup := -100
	var block func()
	block = func() {
		for pos < len(lines) {
			line := lines[pos]
			pos++
			f := strings.SplitN(line, " ", 3)
			switch f[0] {
			case "E": // end of the innermost group
				return
			case "G": // G <prefix> [n]: a group with n (default 1) marker handlers of its own
				n := 1
				if len(f) > 2 {
					n, _ = strconv.Atoi(f[2])
				}
				savedPrefix, savedIDs := prefix, groupIDs
				prefix += f[1]
				groupIDs = append([]int{}, groupIDs...)
				var ghs []Handler
				for k := 0; k < n; k++ {
					gid := nextGroup
					nextGroup--
					groupIDs = append(groupIDs, gid)
					ghs = append(ghs, vMarker(gid))
				}
				vRouter.Group(f[1], block, ghs...)
				prefix, groupIDs = savedPrefix, savedIDs
			case "A": // A 1 / A 0: AutoHead
				autoHead = f[1] == "1"
				vRouter.AutoHead(autoHead)
			case "RG": // RG - <path>: router.Get, which AutoHead doubles for HEAD
				stmt := len(vRoutesAPI)
				rt := vRouter.Get(f[2], vMarker(stmt))
				methods := []string{"GET"}
				if autoHead {
					methods = append(methods, "HEAD")
				}
				vRoutesAPI = append(vRoutesAPI, rt)
				vRegs = append(vRegs, vReg{stmt: stmt, methods: methods, path: prefix + f[2], groups: groupIDs})
				vHdr = append(vHdr, nil)
			case "R":
				stmt := len(vRoutesAPI)
				var rt *Route
				var methods []string
				switch {
				case f[1] == "*":
					rt = vRouter.Any(f[2], vMarker(stmt))
					methods = vAllMethods
				case strings.Contains(f[1], ","):
					rt = vRouter.Routes(f[2], f[1], vMarker(stmt))
					methods = strings.Split(f[1], ",")
				default:
					rt = vRouter.Route(f[1], f[2], []Handler{vMarker(stmt)})
					methods = []string{f[1]}
				}
				vRoutesAPI = append(vRoutesAPI, rt)
				vRegs = append(vRegs, vReg{stmt: stmt, methods: methods, path: prefix + f[2], groups: groupIDs})
				vHdr = append(vHdr, nil)
			case "RS": // Routes() with the method text exactly as given ("*", lower case, lists)
				stmt := len(vRoutesAPI)
				rt := vRouter.Routes(f[2], f[1], vMarker(stmt))
				var methods []string
				if f[1] == "*" {
					methods = vAllMethods
				} else {
					for _, m := range strings.Split(f[1], ",") {
						methods = append(methods, strings.ToUpper(strings.TrimSpace(m)))
					}
				}
				vRoutesAPI = append(vRoutesAPI, rt)
				vRegs = append(vRegs, vReg{stmt: stmt, methods: methods, path: prefix + f[2], groups: groupIDs})
				vHdr = append(vHdr, nil)
			case "H":
				stmt, _ := strconv.Atoi(f[1])
				var pairs []string
				if len(f) > 2 && f[2] != "" {
					for _, kv := range strings.Split(f[2], ";") {
						p := strings.SplitN(kv, "=", 2)
						pairs = append(pairs, p[0], p[1])
						seen := false
						for _, n := range vHdrNames {
							if n == p[0] {
								seen = true
							}
						}
						if !seen {
							vHdrNames = append(vHdrNames, p[0])
						}
					}
				}
				vRoutesAPI[stmt].Headers(pairs...)
				vHdr[stmt] = pairs
				if pairs == nil {
					vHdr[stmt] = []string{}
				}
			case "NF":
				vRouter.NotFound(vMarker(-2))
				vCustomNF = true
			}
		}
	}
	block()
}

type vNullWriter struct{ h http.Header }

func (w *vNullWriter) Header() http.Header {
	if w.h == nil {
		w.h = http.Header{}
	}
	return w.h
}
func (w *vNullWriter) Write(b []byte) (int, error) { return len(b), nil }
func (w *vNullWriter) WriteHeader(int)             {}

// vExpected computes, from the flat list of registrations and the property
// statements, which chain must run for (method, path, header).
func vExpected(method string, path string, header http.Header) (int, func(int, map[string]string) bool) {
	known := false
	for _, m := range vAllMethods {
		if method == m {
			known = true
		}
	}
	if !known {
		return -1, nil
	}
	var texts []string
	var stmts []int
	for _, rg := range vRegs {
		for _, m := range rg.methods {
			if m == method {
				texts = append(texts, rg.path)
				stmts = append(stmts, rg.stmt)
			}
		}
	}
	if len(texts) == 0 {
		return -1, nil
	}
	set := route.VDescribe(texts)
	var gate []bool
	for _, st := range stmts {
		g := true
		pairs := vHdr[st]
		for i := 0; i+1 < len(pairs); i += 2 {
			v := header.Get(pairs[i])
			g = vx.And(g, vx.And(v != "", route.VReSearch(pairs[i+1], v)))
		}
		gate = append(gate, g)
	}
	w, ok := set.Winner(route.VSplitPath(path), gate)
	// map the local index to the statement index without forking
	exp := -1
	for i := len(stmts) - 1; i >= 0; i-- {
		exp = vx.Ite(w == i, stmts[i], exp)
	}
	return exp, func(impl int, params map[string]string) bool {
		good := false
		for i, st := range stmts {
			if st == impl {
				good = vx.Or(good, vx.And(w == i, ok(i, params)))
			}
		}
		return good
	}
}

// vEscapeAll percent-encodes every byte of p except '/' (a valid RawPath for p).
func vEscapeAll(p string) string {
	out := make([]byte, 0, 3*len(p))
	for i := 0; i < len(p); i++ {
		b := p[i]
		if b == '/' {
			out = append(out, '/')
			continue
		}
		hi, lo := int(b>>4), int(b&15)
		out = append(out, '%', byte(hi+'0'+vx.Ite(hi > 9, 7, 0)), byte(lo+'0'+vx.Ite(lo > 9, 7, 0)))
	}
	return string(out)
}

func VH_Router_serve() {
	n := vx.ParamInt("n")
	method := vx.Param("method")
	if method == "?" {
		method = vx.String(7)
	}
	path := vx.Param("prefix") + vx.String(n)
	header := http.Header{}
	hv := vx.ParamInt("hv")
	for _, name := range vHdrNames {
		// absent / present with one value / present with an empty value list (a header map built by hand)
		switch vx.Choice(3) {
		case 1:
			header[name] = []string{vx.String(hv)}
		case 2:
			header[name] = nil
		}
	}
	req := &http.Request{Method: method, URL: &url.URL{Path: path}, Header: header}
	if vx.ParamInt("raw") == 1 && vx.Bool() {
		// the client sent the path percent-encoded (net/http then keeps the original
		// text in URL.RawPath): routing is by the decoded URL.Path all the same
		req.URL.RawPath = vEscapeAll(path)
	}
	w := &vNullWriter{}

	if vx.ParamInt("maporders") == 1 {
		vx.MapOrders(true) // Go leaves map iteration order open: explore it
	}
	if vx.ParamInt("prior") == 1 {
		// C07: an earlier request for the same path with other header values (or another
		// method) must leave no trace in the outcome of this one
		ph := http.Header{}
		for _, name := range vHdrNames {
			if vx.Bool() {
				ph[name] = []string{vx.String(hv)}
			}
		}
		pm := method
		if vx.Bool() {
			pm = "GET"
		}
		vRouter.ServeHTTP(&vNullWriter{}, &http.Request{Method: pm, URL: &url.URL{Path: path}, Header: ph})
	}
	vChains = nil
	vRouter.ServeHTTP(w, req)

	vx.Assert(len(vChains) == 1, "C07: serving runs exactly one handler chain")
	if len(vChains) != 1 {
		return
	}
	got := vChains[0]
	exp, paramsOK := vExpected(method, path, header)
	nf := -1
	if vCustomNF {
		nf = -2
	}
	impl := got.id
	if impl == nf {
		impl = -1
	}
	vx.Assert(impl == exp, "C01/C07/C09: the chain run is that of the route the documented priority selects among eligible routes, else the not-found chain")
	if impl >= 0 && impl < len(vRegs) {
		want := append(append([]int{}, vRegs[impl].groups...), impl)
		sameTrail := len(got.trail) == len(want)
		if sameTrail {
			for k := range want {
				if got.trail[k] != want[k] {
					sameTrail = false
				}
			}
		}
		vx.Assert(sameTrail, "C07: the chain run is exactly that of the chosen route: its groups' handlers, outermost first, then its own")
	}
	if impl >= 0 && paramsOK != nil {
		vx.Reach("dispatched")
		vx.Assert(paramsOK(impl, got.params), "C02: bind parameters at ServeHTTP level")
		rt, present := got.params["route"]
		vx.Assert(present && rt == route.VCanonicalText(vRegs[impl].path), "C02: the reserved parameter `route` is the canonical text of the matched route")
	} else {
		vx.Reach("not-found")
	}

	if vx.ParamInt("diff") == 1 {
		// C10: the same request answered by full tree matching
		tree, ok := vRouter.routeTrees[method]
		tid := -1
		var tparams map[string]string
		if ok {
			leaf, params, found := tree.Match(path, header)
			if found {
				vChains = nil
				params["route"] = leaf.Route()
				leaf.Handler()(w, req, params)
				tid = vChains[0].id
				tparams = vChains[0].params
			}
		}
		vx.Assert(tid == impl || (tid == -1 && impl == -1), "C10: ServeHTTP and full tree matching choose the same route")
		if tid >= 0 && tid == impl {
			same := len(tparams) == len(got.params)
			for k, v := range tparams {
				gv, present := got.params[k]
				same = vx.And(same, vx.And(present, gv == v))
			}
			vx.Assert(same, "C10: ServeHTTP and full tree matching yield the same parameters")
		}
	}

	if vx.ParamInt("twice") == 1 {
		// C07: the outcome is a function of routes and request alone
		vChains = nil
		vRouter.ServeHTTP(w, req)
		same := len(vChains) == 1 && vChains[0].id == got.id && len(vChains[0].params) == len(got.params)
		if same {
			for k, v := range got.params {
				v2, present := vChains[0].params[k]
				same = vx.And(same, vx.And(present, v2 == v))
			}
		}
		vx.Assert(same, "C07: repeating a request gives the same outcome")
	}
	vx.Observe("serve", method, path, got.id, got.params)
}
