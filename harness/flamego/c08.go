//go:build verif

package flamego

// C08 at router level: unknown methods and per-method duplicates fail loudly
// at registration time.

import (
	"net/http"

	"github.com/flamego/flamego/internal/route"
	"github.com/flamego/flamego/internal/vx"
)

func init() {
	vx.Register("VH_C08_method", VH_C08_method)
}

func vUpperASCII(s string) string {
	b := []byte(s)
	for i := range b {
		if b[i] >= 'a' && b[i] <= 'z' {
			b[i] -= 'a' - 'A'
		}
	}
	return string(b)
}

func VH_C08_method() {
	r := newRouter(func(http.ResponseWriter, *http.Request, route.Params, []Handler, urlPather) internalContext {
		return &vCtx{}
	}).(*router)
	method := vx.String(vx.ParamInt("mlen"))
	for i := 0; i < len(method); i++ {
		vx.Assume(method[i] < 0x80) // registration methods are ASCII tokens (non-ASCII case mapping is outside the claim)
	}
	up := vUpperASCII(method)
	known := up == "*"
	for _, m := range vAllMethods {
		if up == m {
			known = true
		}
	}
	p1 := vPanics(func() { r.Route(method, "/a/{x}", []Handler{func() {}}) })
	vx.Assert(p1 == !known, "C08: a registration panics at registration time iff the HTTP method is unknown")
	if known {
		vx.Reach("known-method")
		p2 := vPanics(func() { r.Route(method, "/a/{x}", []Handler{func() {}}) })
		vx.Assert(p2, "C08: the same route registered again for the same method is rejected")
		other := "PUT"
		if up == "PUT" || up == "*" {
			other = "TRACE"
		}
		p3 := vPanics(func() { r.Route(other, "/a/{x}", []Handler{func() {}}) })
		vx.Assert(p3 == (up == "*"), "C08: the same route for another method is accepted (unless registered for all methods)")
		p4 := vPanics(func() { r.Route(method, "/a/{x", []Handler{func() {}}) })
		vx.Assert(p4, "C08: route text outside the grammar is rejected at registration time")
		p5 := vPanics(func() { r.Route(method, "/a/{x", []Handler{func() {}}) })
		p6 := vPanics(func() { r.Route(other, "/b/c d", []Handler{func() {}}) })
		p7 := vPanics(func() { r.Route(other, "/b/c d", []Handler{func() {}}) })
		vx.Assert(p5 && p6 && p7, "C08: ... every time it is offered, for every method")
	}
	vx.Observe("method", method, known, p1)
}
