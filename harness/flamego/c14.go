//go:build verif

package flamego

// C14 harness: what a handler returns determines the response, by the table
// of the statement, for every value of the supported shapes; reflective and
// fast-path invocation agree; a registered ReturnHandler replaces the table.

import (
	"errors"
	"io"
	"net/http"
	"net/url"
	"reflect"

	"github.com/flamego/flamego/internal/vx"
)

type vRawBytes []byte

func init() {
	vx.Register("VH_C14_return", VH_C14_return)
}

// vTextErr is a second concrete error type (besides errors.New's).
type vTextErr struct{ text string }

func (e *vTextErr) Error() string { return e.text }

// error types whose non-nil values are the zero value of their type
type vEmptyErr struct{}

func (vEmptyErr) Error() string { return "empty-struct error" }

type vCodeErr int

func (e vCodeErr) Error() string { return "code error" }

// vMakeErr returns a non-nil error with the given message where the type
// allows it; two of the five types are zero values of their type.
func vMakeErr(text string) error {
	switch vx.Choice(5) {
	case 0:
		return errors.New(text)
	case 1:
		return &vTextErr{text}
	case 2:
		return vEmptyErr{}
	case 3:
		return vCodeErr(0)
	}
	return vCodeErr(vx.Int(1, 9))
}

// expectation: status to be sent (0 = none), body bytes, or "open" clauses
type vExpect struct {
	status   int
	body     string
	anything bool // the statement leaves this case open: only "no panic" is required
}

func VH_C14_return() {
	shape := vx.Param("shape")
	text := vx.String(vx.ParamInt("len"))
	code := vx.Int(100, 999)
	isNil := vx.Bool() // the error (or pointer / slice) result is nil
	var errv error
	var exp vExpect
	var h Handler

	bytesOf := func() []byte {
		if isNil {
			return nil
		}
		return []byte(text)
	}
	switch shape {
	case "string":
		h = func() string { return text }
		if text != "" {
			exp = vExpect{status: 200, body: text}
		}
	case "bytes":
		b := bytesOf()
		h = func() []byte { return b }
		if len(b) > 0 {
			exp = vExpect{status: 200, body: text}
		}
	case "named-bytes":
		// a byte slice type with a name of its own (json.RawMessage is one): still a byte slice
		b := vRawBytes(bytesOf())
		switch vx.Choice(3) {
		case 0:
			h = func() vRawBytes { return b }
			if len(b) > 0 {
				exp = vExpect{status: 200, body: text}
			}
		case 1:
			h = func() (int, vRawBytes) { return code, b }
			exp = vExpect{status: code, body: string(b)}
		case 2:
			h = func() (vRawBytes, error) { return b, nil }
			if len(b) > 0 {
				exp = vExpect{status: 200, body: text}
			}
		}
	case "error":
		if !isNil {
			errv = vMakeErr(text)
			exp = vExpect{status: 500, body: errv.Error()}
		}
		h = func() error { return errv }
	case "int-string":
		h = func(Context) (int, string) { return code, text }
		exp = vExpect{status: code, body: text}
	case "teapot": // same shape through the built-in fast path
		h = func() (int, string) { return code, text }
		exp = vExpect{status: code, body: text}
	case "int-bytes":
		b := bytesOf()
		h = func() (int, []byte) { return code, b }
		exp = vExpect{status: code}
		if !isNil {
			exp.body = text
		}
	case "int-error":
		if !isNil {
			errv = vMakeErr(text)
		}
		h = func() (int, error) { return code, errv }
		exp = vExpect{status: code}
		if !isNil {
			// "(int, error) uses the int as status and the second value as body"
			exp.body = errv.Error()
		}
	case "string-error":
		if !isNil {
			errv = vMakeErr(vx.String(2))
			exp = vExpect{status: 500, body: errv.Error()}
		} else if text != "" {
			exp = vExpect{status: 200, body: text}
		}
		h = func() (string, error) { return text, errv }
	case "bytes-error":
		b := []byte(text)
		if !isNil {
			errv = vMakeErr(vx.String(2))
			exp = vExpect{status: 500, body: errv.Error()}
		} else if text != "" {
			exp = vExpect{status: 200, body: text}
		}
		h = func() ([]byte, error) { return b, errv }
	case "ptr-string":
		// a pointer result is dereferenced; a pointer to "" is left open by the statement
		var p *string
		if !isNil {
			vx.Assume(text != "")
			p = &text
			exp = vExpect{status: 200, body: text}
		}
		h = func() *string { return p }
	case "int-ptr-string":
		var p *string
		exp = vExpect{status: code}
		if !isNil {
			p = &text
			exp.body = text
		}
		h = func() (int, *string) { return code, p }
	case "custom":
		h = func() (int, string) { return code, text }
	case "custom-zero":
		// results the default table answers with silence: a registered return handler still decides
		switch vx.Choice(4) {
		case 0:
			h = func() error { return nil }
		case 1:
			h = func() string { return "" }
		case 2:
			h = func() (int, string) { return 0, "" }
		case 3:
			h = func() (string, error) { return "", nil }
		}
	}

	f := NewWithLogger(io.Discard)
	customCalled := 0
	if shape == "custom" {
		f.Map(ReturnHandler(func(c Context, vals []reflect.Value) {
			customCalled++
			vx.Assert(len(vals) == 2 && vals[0].Kind() == reflect.Int && int(vals[0].Int()) == code && vals[1].String() == text,
				"C14: a registered return handler receives the handler's results unchanged")
		}))
	}
	if shape == "custom-zero" {
		f.Map(ReturnHandler(func(c Context, vals []reflect.Value) { customCalled++ }))
	}
	lateCustom := 0
	if shape == "late-custom" {
		// an earlier handler returns a write-nothing value (the table is consulted once), then a
		// middleware maps a return handler in the request scope: it must render what comes later
		f.Use(func() string { return "" })
		f.Use(func(c Context) {
			c.Map(ReturnHandler(func(c Context, vals []reflect.Value) { lateCustom++ }))
		})
		h = func() string { return "body" }
	}
	continued := false
	pos := vx.ParamInt("pos")
	for i := 0; i < pos; i++ {
		f.Use(func() {})
	}
	f.Get("/", h, func() { continued = true })

	spy := &vSpy{}
	req := &http.Request{Method: "GET", URL: &url.URL{Path: "/"}, Header: http.Header{}}
	f.ServeHTTP(spy, req)

	if shape == "late-custom" {
		vx.Assert(lateCustom == 1 && spy.headers == 0 && spy.writes == 0, "C14: a return handler registered in the injector (request scope, during the request) replaces the table from then on")
		vx.Observe("late-custom", lateCustom)
		return
	}
	if shape == "custom-zero" {
		vx.Assert(customCalled == 1, "C14: a return handler registered in the injector replaces the table (also for results the table answers with silence)")
		vx.Observe("custom-zero", customCalled)
		return
	}
	if shape == "custom" {
		vx.Assert(customCalled == 1 && spy.headers == 0 && spy.writes == 0, "C14: a return handler registered in the injector replaces the table")
		vx.Assert(continued, "C14: nothing written, so the chain continues")
		vx.Observe("custom", customCalled)
		return
	}
	if exp.status == 0 {
		vx.Assert(spy.headers == 0 && spy.writes == 0, "C14: nil, empty and zero results write nothing")
		vx.Assert(continued, "C14: ... so the chain continues")
	} else {
		vx.Assert(spy.headers == 1 && spy.firstCode == exp.status, "C14: the status is the one the table gives for this shape")
		vx.Assert(string(spy.body) == exp.body, "C14: the body is the returned string / bytes / error message")
		vx.Assert(!continued, "C14: once written the chain does not advance")
	}
	vx.Observe("ret", shape, isNil, spy.headers, spy.firstCode, string(spy.body), continued)
}
