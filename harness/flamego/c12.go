//go:build verif

package flamego

// C12 at router level: named routes, pair lists, withOptional, and the panics
// demanded for unknown, empty and duplicate names.

import (
	"net/http"
	"net/url"

	"github.com/flamego/flamego/internal/route"
	"github.com/flamego/flamego/internal/vx"
)

func init() {
	vx.Register("VH_C12_named", VH_C12_named)
	vx.Register("VH_C12_context", VH_C12_context)
}

func vPanics(f func()) (panicked bool) {
	defer func() {
		if recover() != nil {
			panicked = true
		}
	}()
	f()
	return
}

func VH_C12_named() {
	r := newRouter(func(http.ResponseWriter, *http.Request, route.Params, []Handler, urlPather) internalContext {
		return &vCtx{}
	}).(*router)
	r.Get("/u/{name}/?{tab}", func() {}).Name("user")
	r.Combo("/c/{id}").Get(func() {}).Post(func() {}).Name("combo")
	n := vx.ParamInt("vlen")
	name, tab := vx.String(n), vx.String(n)
	opt := vx.Bool()
	var pairs []string
	pairs = append(pairs, "name", name)
	if opt {
		pairs = append(pairs, "withOptional", "true")
	}
	pairs = append(pairs, "tab", tab)
	got := r.URLPath("user", pairs...)
	want := "/u/" + name
	if opt {
		want += "/" + tab
	}
	vx.Assert(got == want, "C12: router.URLPath substitutes the pairs and includes the optional segment only when asked")
	// the same flat text split differently into pairs is a different request
	vx.Assert(r.URLPath("user", "name", name+"/tab/"+tab) == "/u/"+name+"/tab/"+tab && r.URLPath("user", pairs...) == want,
		"C12: router.URLPath depends on the pairs as given (no confusion between differently grouped pair lists), call after call")
	vx.Assert(r.URLPath("combo", "id", name) == "/c/"+name, "C12: ComboRoute.Name names the route")
	// routes without bind parameters: static, and static with an optional last segment
	r.Get("/s/t", func() {}).Name("static")
	r.Get("/webapi/?users", func() {}).Name("optstatic")
	r.Get("/a/b/?c", func() {}).Name("optstatic2")
	vx.Assert(r.URLPath("static") == "/s/t" && r.URLPath("static", "x", name) == "/s/t", "C12: a route without bind parameters is its own path")
	var op []string
	if opt {
		op = []string{"withOptional", "true"}
	}
	w1, w2 := "/webapi", "/a/b"
	if opt {
		w1, w2 = "/webapi/users", "/a/b/c"
	}
	vx.Assert(r.URLPath("optstatic", op...) == w1 && r.URLPath("optstatic2", op...) == w2, "C12: router.URLPath includes the optional segment only when asked (never the `?` marker)")
	vx.Assert(r.URLPath("user", "name") == "/u/{name}", "C12: a trailing key without a value leaves the bind visible")
	vx.Assert(vPanics(func() { r.URLPath("nope") }), "C12: an unknown route name panics")
	vx.Assert(vPanics(func() { r.Get("/e", func() {}).Name("") }), "C12: an empty route name panics")
	vx.Assert(vPanics(func() { r.Get("/d", func() {}).Name("user") }), "C12: a duplicate route name panics")
	vx.Assert(vPanics(func() { r.Combo("/cc").Name("x") }), "C12: naming a combo without routes panics")
	vx.Observe("named", opt, got)
}

// VH_C12_context: Context.URLPath is Router.URLPath with the pairs as given - whatever bind
// parameters the request being served has itself (none, one, several; with the names of the
// target route's binds or with other names).
func VH_C12_context() {
	r := newRouter(func(http.ResponseWriter, *http.Request, route.Params, []Handler, urlPather) internalContext {
		return &vCtx{}
	}).(*router)
	r.Get("/u/{name}/?{tab}", func() {}).Name("user")
	r.Get("/{name}/{tab}/settings", func() {}).Name("settings")
	n := vx.ParamInt("vlen")
	name, tab := vx.String(n), vx.String(n)
	own := route.Params{"route": "/{name}/{tab}"}
	switch vx.Choice(4) {
	case 1:
		own["name"] = "cur"
	case 2:
		own["name"], own["tab"] = "cur", "rent"
	case 3:
		own["name"], own["tab"], own["other"] = "cur", "rent", "x"
	}
	req := &http.Request{Method: "GET", URL: &url.URL{Path: "/cur/rent"}, Header: http.Header{}}
	c := newContext(vC12W{http.Header{}}, req, own, nil, r.URLPath)
	var pairs []string
	if vx.Bool() {
		pairs = append(pairs, "name", name)
	}
	opt := vx.Bool()
	if opt {
		pairs = append(pairs, "withOptional", "true")
	}
	if vx.Bool() {
		pairs = append(pairs, "tab", tab)
	}
	got, want := c.URLPath("user", pairs...), r.URLPath("user", pairs...)
	vx.Assert(got == want, "C12: Context.URLPath is Router.URLPath with the pairs as given (binds without a supplied value stay visible, whatever the current request's own parameters)")
	got2, want2 := c.URLPath("settings", pairs...), r.URLPath("settings", pairs...)
	vx.Assert(got2 == want2, "C12: Context.URLPath is Router.URLPath with the pairs as given (binds without a supplied value stay visible, whatever the current request's own parameters)")
	vx.Assert(c.URLPath("settings") == "/{name}/{tab}/settings", "C12: binds without a value stay visible as {bind}")
	vx.Observe("ctx", got, got2)
}

type vC12W struct{ h http.Header }

func (w vC12W) Header() http.Header         { return w.h }
func (w vC12W) Write(b []byte) (int, error) { return len(b), nil }
func (w vC12W) WriteHeader(int)             {}
