//go:build verif

package flamego

// C12 at router level: named routes, pair lists, withOptional, and the panics
// demanded for unknown, empty and duplicate names.

import (
	"net/http"

	"github.com/flamego/flamego/internal/route"
	"github.com/flamego/flamego/internal/vx"
)

func init() {
	vx.Register("VH_C12_named", VH_C12_named)
}

func vPanics(f func()) (panicked bool) {
	defer func() {
		if recover() != nil {
			panicked = true
		}
	}()
	f()
	return
}

func VH_C12_named() {
	r := newRouter(func(http.ResponseWriter, *http.Request, route.Params, []Handler, urlPather) internalContext {
		return &vCtx{}
	}).(*router)
	r.Get("/u/{name}/?{tab}", func() {}).Name("user")
	r.Combo("/c/{id}").Get(func() {}).Post(func() {}).Name("combo")
	n := vx.ParamInt("vlen")
	name, tab := vx.String(n), vx.String(n)
	opt := vx.Bool()
	var pairs []string
	pairs = append(pairs, "name", name)
	if opt {
		pairs = append(pairs, "withOptional", "true")
	}
	pairs = append(pairs, "tab", tab)
	got := r.URLPath("user", pairs...)
	want := "/u/" + name
	if opt {
		want += "/" + tab
	}
	vx.Assert(got == want, "C12: router.URLPath substitutes the pairs and includes the optional segment only when asked")
	// the same flat text split differently into pairs is a different request
	vx.Assert(r.URLPath("user", "name", name+"/tab/"+tab) == "/u/"+name+"/tab/"+tab && r.URLPath("user", pairs...) == want,
		"C12: router.URLPath depends on the pairs as given (no confusion between differently grouped pair lists), call after call")
	vx.Assert(r.URLPath("combo", "id", name) == "/c/"+name, "C12: ComboRoute.Name names the route")
	// routes without bind parameters: static, and static with an optional last segment
	r.Get("/s/t", func() {}).Name("static")
	r.Get("/webapi/?users", func() {}).Name("optstatic")
	r.Get("/a/b/?c", func() {}).Name("optstatic2")
	vx.Assert(r.URLPath("static") == "/s/t" && r.URLPath("static", "x", name) == "/s/t", "C12: a route without bind parameters is its own path")
	var op []string
	if opt {
		op = []string{"withOptional", "true"}
	}
	w1, w2 := "/webapi", "/a/b"
	if opt {
		w1, w2 = "/webapi/users", "/a/b/c"
	}
	vx.Assert(r.URLPath("optstatic", op...) == w1 && r.URLPath("optstatic2", op...) == w2, "C12: router.URLPath includes the optional segment only when asked (never the `?` marker)")
	vx.Assert(r.URLPath("user", "name") == "/u/{name}", "C12: a trailing key without a value leaves the bind visible")
	vx.Assert(vPanics(func() { r.URLPath("nope") }), "C12: an unknown route name panics")
	vx.Assert(vPanics(func() { r.Get("/e", func() {}).Name("") }), "C12: an empty route name panics")
	vx.Assert(vPanics(func() { r.Get("/d", func() {}).Name("user") }), "C12: a duplicate route name panics")
	vx.Assert(vPanics(func() { r.Combo("/cc").Name("x") }), "C12: naming a combo without routes panics")
	vx.Observe("named", opt, got)
}
