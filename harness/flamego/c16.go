//go:build verif

package flamego

// C16 harness: Static serves only through its FileSystem, only GET/HEAD, only
// under the prefix at a segment boundary, only the names the statement allows,
// and writes nothing when it cannot serve.

import (
	"errors"
	"io"
	"io/fs"
	"net/http"
	"net/url"
	"os"
	"path"
	"path/filepath"
	"strings"
	"time"

	"github.com/flamego/flamego/internal/vx"
)

func init() {
	vx.Register("VH_C16_static", VH_C16_static)
	vx.Register("VH_C16_dir", VH_C16_dir)
	vx.Register("VH_C16_default", VH_C16_default)
}

var vErrNoFile = errors.New("harness fs: no such file")

const vFileData = "DATA"

// vFS answers Open nondeterministically: error, regular file or directory.
type vFS struct {
	opened []string
	kinds  []int // what each Open answered: 0 error, 1 file, 2 directory
	files  []*vFile
}

func (f *vFS) Open(name string) (http.File, error) {
	f.opened = append(f.opened, name)
	k := vx.Choice(3)
	f.kinds = append(f.kinds, k)
	if k == 0 {
		f.files = append(f.files, nil)
		return nil, vErrNoFile
	}
	file := &vFile{name: name, dir: k == 2, statFails: vx.Bool()}
	f.files = append(f.files, file)
	return file, nil
}

type vFile struct {
	name      string
	dir       bool
	statFails bool
	pos       int
	closed    int
}

func (f *vFile) Close() error { f.closed++; return nil }
func (f *vFile) Read(p []byte) (int, error) {
	if f.pos >= len(vFileData) {
		return 0, io.EOF
	}
	n := copy(p, vFileData[f.pos:])
	f.pos += n
	return n, nil
}
func (f *vFile) Seek(offset int64, whence int) (int64, error) {
	switch whence {
	case io.SeekStart:
		f.pos = int(offset)
	case io.SeekCurrent:
		f.pos += int(offset)
	case io.SeekEnd:
		f.pos = len(vFileData) + int(offset)
	}
	return int64(f.pos), nil
}
func (f *vFile) Readdir(int) ([]fs.FileInfo, error) { return nil, nil }
func (f *vFile) Stat() (fs.FileInfo, error) {
	if f.statFails {
		return nil, vErrNoFile
	}
	return vInfo{f}, nil
}

type vInfo struct{ f *vFile }

func (i vInfo) Name() string       { return "file" }
func (i vInfo) Size() int64        { return int64(len(vFileData)) }
func (i vInfo) Mode() fs.FileMode  { return 0 }
func (i vInfo) ModTime() time.Time { return time.Time{} }
func (i vInfo) IsDir() bool        { return i.f.dir }
func (i vInfo) Sys() interface{}   { return nil }

// vNormPrefix: the documented normalisation: leading slash, no trailing slash.
func vNormPrefix(p string) string {
	if p == "" {
		return ""
	}
	for len(p) > 0 && p[0] == '/' {
		p = p[1:]
	}
	for len(p) > 0 && p[len(p)-1] == '/' {
		p = p[:len(p)-1]
	}
	return "/" + p
}

// vHexEscapeNonASCII: what net/http does to a redirect target before it becomes the Location header.
func vHexEscapeNonASCII(s string) string {
	const hex = "0123456789ABCDEF"
	out := make([]byte, 0, len(s))
	for i := 0; i < len(s); i++ {
		if s[i] >= 0x80 {
			out = append(out, '%', hex[s[i]>>4], hex[s[i]&15])
		} else {
			out = append(out, s[i])
		}
	}
	return string(out)
}

func VH_C16_static() {
	prefix := vx.Param("prefix")
	index := vx.Param("index")
	etag := vx.ParamInt("etag") == 1
	method := vx.Param("method")
	if method == "?" {
		method = vx.String(4)
	}
	upath := vx.Param("pathprefix") + vx.String(vx.ParamInt("n"))

	vfs := &vFS{}
	opt := StaticOptions{FileSystem: vfs, Prefix: prefix, Index: index, SetETag: etag}
	if vx.ParamInt("hdrs") == 1 {
		opt.Expires = func() string { return "E" }
		opt.CacheControl = func() string { return "C" }
	}
	f := NewWithLogger(io.Discard)
	reachedNext := false
	f.Use(Static(opt))
	f.Use(func() { reachedNext = true })
	f.NotFound(func() {}) // the rest of the chain: writes nothing, so everything the spy sees comes from Static

	spy := &vSpy{}
	hdr := http.Header{}
	matchETag := false
	if etag {
		matchETag = vx.Bool()
		if matchETag {
			hdr.Set("If-None-Match", generateETag(int64(len(vFileData)), "file", time.Time{}))
		}
	}
	req := &http.Request{Method: method, URL: &url.URL{Path: upath}, Header: hdr}
	f.ServeHTTP(spy, req)

	P := vNormPrefix(prefix)
	if index == "" {
		index = "index.html"
	}
	// (i) other methods: the file system is not touched, nothing is written
	if method != "GET" && method != "HEAD" {
		vx.Assert(len(vfs.opened) == 0 && spy.headers == 0 && spy.writes == 0 && len(spy.Header()) == 0, "C16: only GET and HEAD are answered")
		vx.Assert(reachedNext, "C16: the rest of the chain handles the request")
		vx.Observe("static", "other-method", len(vfs.opened))
		return
	}
	// (ii) prefix at a segment boundary
	under := true
	rest := upath
	if P != "" {
		under = upath == P || strings.HasPrefix(upath, P+"/")
		if under {
			rest = upath[len(P):]
		}
	}
	if !under {
		vx.Assert(len(vfs.opened) == 0 && spy.headers == 0 && spy.writes == 0 && len(spy.Header()) == 0, "C16: paths outside the prefix (or not at a segment boundary) are not served")
		vx.Assert(reachedNext, "C16: the rest of the chain handles the request")
		vx.Observe("static", "outside-prefix", len(vfs.opened))
		return
	}
	vx.Reach("under-prefix")
	// (iii) the only names opened: the stripped path, then its index
	name := rest
	if name == "/" {
		name = "."
	} else {
		for len(name) > 0 && name[len(name)-1] == '/' {
			name = name[:len(name)-1]
		}
	}
	vx.Assert(len(vfs.opened) >= 1 && vfs.opened[0] == name, "C16: the first name opened is the request path without prefix and trailing slashes")
	if len(vfs.opened) > 1 {
		vx.Assert(len(vfs.opened) == 2 && vfs.opened[1] == path.Join(name, index) && vfs.kinds[0] == 2, "C16: the only other name opened is the index file of a directory")
	}
	served := false
	redirected := false
	for _, e := range vx.StubLog() {
		if strings.HasPrefix(e, "servecontent ") {
			served = true
		}
		if strings.HasPrefix(e, "redirect ") {
			redirected = true
			vx.Assert(e == "redirect "+path.Clean(upath)+"/ 302", "C16: a directory without trailing slash is redirected to its slash-terminated form with 302")
		}
	}
	if !vx.Symbolic() {
		served = spy.headers == 1 && (spy.firstCode == 200 || spy.firstCode == 304)
		redirected = spy.firstCode == 302
		if redirected {
			// natively the real http.Redirect ran: its Location is the target it was given (bytes >= 0x80 hex-escaped)
			vx.Assert(spy.Header().Get("Location") == vHexEscapeNonASCII(path.Clean(upath)+"/"), "C16: a directory without trailing slash is redirected to its slash-terminated form with 302")
		}
	}

	// what must have happened, from the answers the file system gave
	first := vfs.files[0]
	canServe := false
	wantRedirect := false
	var servedFile *vFile
	switch {
	case first == nil || first.statFails:
	case !first.dir:
		canServe, servedFile = true, first
	default:
		clean := path.Clean(upath)
		slashForm := strings.HasSuffix(clean, "/") || strings.HasSuffix(upath, "/")
		if !slashForm {
			wantRedirect = true
		} else if len(vfs.files) > 1 && vfs.files[1] != nil && !vfs.files[1].statFails && !vfs.files[1].dir {
			canServe, servedFile = true, vfs.files[1]
		}
	}
	switch {
	case wantRedirect:
		vx.Assert(redirected && spy.headers == 1 && spy.firstCode == 302 && len(vfs.opened) == 1, "C16: exactly one redirect for a directory without trailing slash")
	case canServe && etag && matchETag:
		vx.Assert(spy.headers == 1 && spy.firstCode == 304 && spy.bytes == 0, "C16: a matching ETag gives 304 and no content")
	case canServe:
		vx.Assert(served && spy.headers == 1 && spy.firstCode == 200, "C16: a regular file inside the file system is served")
		if method == "GET" {
			vx.Assert(string(spy.body) == vFileData && servedFile.pos > 0, "C16: what is sent is the content of the file that was opened")
		} else {
			vx.Assert(spy.bytes == 0, "C16: HEAD sends no body")
		}
	default:
		// (iv) cannot serve: silent
		vx.Assert(spy.headers == 0 && spy.writes == 0 && !served && !redirected, "C16: a missing file, a failing Stat or a directory without a regular index writes nothing")
		vx.Assert(len(spy.Header()) == 0, "C16: ... and leaves no response header behind for the rest of the chain")
		vx.Assert(reachedNext, "C16: ... so the rest of the chain handles the request")
	}
	nb := spy.bytes
	if redirected {
		nb = -1 // the real http.Redirect adds a small HTML body for GET, the stub does not
	}
	vx.Observe("static", method, upath, vfs.opened, spy.firstCode, nb)
}

// VH_C16_dir: containment lemma for the default FileSystem: http.Dir(d).Open
// hands the operating system only paths inside d.
func VH_C16_dir() {
	name := vx.String(vx.ParamInt("n"))
	root := "/srv/pub"
	_, err := http.Dir(root).Open(name)
	var opened []string
	if vx.Symbolic() {
		for _, e := range vx.StubLog() {
			if strings.HasPrefix(e, "os.Open ") {
				opened = append(opened, e[len("os.Open "):])
			}
		}
	} else {
		var pe *fs.PathError
		if errors.As(err, &pe) && pe.Op == "open" {
			opened = append(opened, pe.Path)
		}
	}
	for _, p := range opened {
		inside := p == root || strings.HasPrefix(p, root+"/")
		vx.Assert(inside, "C16/lemma: http.Dir opens only paths inside its directory")
		dotdot := false
		for _, el := range strings.Split(p, "/") {
			if el == ".." {
				dotdot = true
			}
		}
		vx.Assert(!dotdot, "C16/lemma: the path handed to the operating system has no .. element")
	}
	vx.Observe("dir", name, len(opened), err != nil)
}

// VH_C16_default: with no options at all the directory served is "public"
// (relative to the working directory), nothing else.
func VH_C16_default() {
	n := vx.ParamInt("n")
	name := vx.String(n)
	vx.Assume(len(name) > 0)
	for i := 0; i < len(name); i++ {
		vx.Assume(vx.And(name[i] >= 'a', name[i] <= 'z'))
	}
	const msg = "C16: with no options only files inside the directory \"public\" are served"
	f := NewWithLogger(io.Discard)
	f.Use(Static())
	f.NotFound(func() {})
	spy := &vSpy{}
	if vx.Symbolic() {
		f.ServeHTTP(spy, &http.Request{Method: "GET", URL: &url.URL{Path: "/" + name}, Header: http.Header{}})
		opened := 0
		for _, e := range vx.StubLog() {
			if strings.HasPrefix(e, "os.Open ") {
				opened++
				p := e[len("os.Open "):]
				vx.Assert(p == "public/"+name, msg)
			}
		}
		vx.Assert(opened >= 1, "C16: the default file system is consulted")
		vx.Observe("default", name, opened)
		return
	}
	// natively: a scratch working directory with the same name inside and outside "public"
	dir, err := os.MkdirTemp("", "verif_c16_")
	if err != nil {
		return
	}
	defer os.RemoveAll(dir)
	old, _ := os.Getwd()
	_ = os.Mkdir(filepath.Join(dir, "public"), 0o755)
	_ = os.WriteFile(filepath.Join(dir, "public", name), []byte("IN"), 0o644)
	_ = os.WriteFile(filepath.Join(dir, name), []byte("OUT"), 0o644)
	if os.Chdir(dir) != nil {
		return
	}
	defer func() { _ = os.Chdir(old) }()
	f.ServeHTTP(spy, &http.Request{Method: "GET", URL: &url.URL{Path: "/" + name}, Header: http.Header{}})
	vx.Assert(spy.firstCode == 200 && string(spy.body) == "IN", msg)
	vx.Observe("default", name, 1)
}
