//go:build verif

package flamego

// C13 harnesses: ResponseWriter state machine (DESIGN.md §3/C13).

import (
	"errors"
	"io"
	"net/http"

	"github.com/flamego/flamego/internal/vx"
)

func init() {
	vx.Register("VH_C13_kstep", VH_C13_kstep)
	vx.Register("VH_C13_step", VH_C13_step)
}

var vErrShort = errors.New("short write")

// vSpy is the underlying http.ResponseWriter: it records what reaches it.
// It is a Flusher but neither a Hijacker nor a Pusher.
type vSpy struct {
	hdr          http.Header
	headers      int // WriteHeader calls received
	firstCode    int // code of the first one
	bytes        int // body bytes accepted
	writes       int // Write calls received
	flushes      int
	bodyBeforeHd bool   // a Write/Flush arrived while headers == 0
	shortWrites  bool   // Write may accept fewer bytes than offered (with an error)
	body         []byte // the bytes accepted, in order
	strict       bool   // WriteHeader panics on a code outside [100,999], as net/http's response does
}

func (s *vSpy) Header() http.Header {
	if s.hdr == nil {
		s.hdr = http.Header{}
	}
	return s.hdr
}

func (s *vSpy) WriteHeader(code int) {
	if s.strict && (code < 100 || code > 999) {
		panic("invalid WriteHeader code")
	}
	if s.headers == 0 {
		s.firstCode = code
	}
	s.headers++
}

func (s *vSpy) Write(b []byte) (int, error) {
	if s.headers == 0 {
		s.bodyBeforeHd = true
	}
	s.writes++
	n := len(b)
	if s.shortWrites {
		n = vx.Int(0, len(b))
	}
	s.bytes += n
	s.body = append(s.body, b[:n]...)
	if n < len(b) {
		return n, vErrShort
	}
	return n, nil
}

// ReadFrom makes the spy an io.ReaderFrom, as net/http's own response writer is
// (the sendfile path of io.Copy): whatever arrives this way is body all the same.
func (s *vSpy) ReadFrom(r io.Reader) (int64, error) {
	var total int64
	buf := make([]byte, 4)
	for {
		n, err := r.Read(buf)
		if n > 0 {
			m, werr := s.Write(buf[:n])
			total += int64(m)
			if werr != nil {
				return total, werr
			}
		}
		if err != nil {
			return total, nil
		}
	}
}

// vPlainReader is a reader that is nothing but a reader (no WriteTo), so that
// io.Copy has to choose between the destination's ReadFrom and plain Write.
type vPlainReader struct {
	data []byte
	pos  int
}

func (r *vPlainReader) Read(p []byte) (int, error) {
	if r.pos >= len(r.data) {
		return 0, io.EOF
	}
	n := copy(p, r.data[r.pos:])
	r.pos += n
	return n, nil
}

func (s *vSpy) Flush() {
	if s.headers == 0 {
		s.bodyBeforeHd = true
	}
	s.flushes++
}

// vSpyNoFlush is the same spy behind a writer that is not an http.Flusher (and
// no io.ReaderFrom): Flush still commits the response.
type vSpyNoFlush struct{ s *vSpy }

func (w vSpyNoFlush) Header() http.Header         { return w.s.Header() }
func (w vSpyNoFlush) Write(b []byte) (int, error) { return w.s.Write(b) }
func (w vSpyNoFlush) WriteHeader(code int)        { w.s.WriteHeader(code) }

// vRef is the reference automaton written from the property statement.
type vRef struct {
	status int
	size   int
}

// VH_C13_kstep: k operations from a fresh writer, every operation, code,
// length and the request method symbolic.
func VH_C13_kstep() {
	k := vx.ParamInt("k")
	method := vx.String(4)
	spy := &vSpy{shortWrites: vx.ParamInt("short") == 1}
	var under http.ResponseWriter = spy
	if vx.ParamInt("noflush") == 1 {
		under = vSpyNoFlush{spy}
	}
	w := NewResponseWriter(method, under)
	ref := vRef{}
	var registered []int // hook ids registered while no status had been sent
	var ran []int        // hook ids in the order they ran
	hookSawHeader := false
	hookSawStatus := false
	nextHook := 0
	nest := vx.ParamInt("nest") == 1

	for step := 0; step < k; step++ {
		switch vx.Choice(5) {
		case 4:
			// a body sent with io.Copy from a plain reader (the route an io.ReaderFrom fast path would take)
			n := vx.Int(0, 2)
			before := spy.bytes
			_, _ = io.Copy(w, &vPlainReader{data: make([]byte, n)})
			if n > 0 && ref.status == 0 {
				ref.status = 200
			}
			fwd := spy.bytes - before
			ref.size += fwd
			if method == "HEAD" {
				vx.Assert(fwd == 0, "HEAD forwards no body bytes")
			}
		case 0:
			code := vx.Int(100, 999)
			w.WriteHeader(code)
			if ref.status == 0 {
				ref.status = code
			}
		case 1:
			n := vx.Int(0, 2)
			buf := make([]byte, n)
			for i := range buf {
				buf[i] = vx.Byte()
			}
			before := spy.bytes
			got, _ := w.Write(buf)
			if ref.status == 0 {
				ref.status = 200
			}
			fwd := spy.bytes - before
			ref.size += fwd
			vx.Assert(got == fwd, "Write returns the number of bytes the underlying writer accepted")
			if method == "HEAD" {
				vx.Assert(fwd == 0 && got == 0, "HEAD forwards no body bytes")
			} else {
				vx.Reach("non-HEAD write")
			}
		case 2:
			w.Flush()
			if ref.status == 0 {
				ref.status = 200
			}
		case 3:
			id := nextHook
			nextHook++
			if ref.status == 0 {
				registered = append(registered, id)
			}
			w.Before(func(rw ResponseWriter) {
				ran = append(ran, id)
				if spy.headers != 0 {
					hookSawHeader = true
				}
				if rw.Status() != 0 || rw.Written() {
					hookSawStatus = true
				}
				if nest {
					// a hook registers another one while the hooks run: too late to count as "registered before the
					// first write" (nothing is asserted about it), and never at the expense of one that was
					rw.Before(func(ResponseWriter) {})
				}
			})
		}
		// truthful accessors after every step
		vx.Assert(w.Status() == ref.status, "Status() is 0 until the first status is sent, then that status")
		vx.Assert(w.Size() == ref.size, "Size() equals the body bytes forwarded")
		vx.Assert(w.Written() == (ref.status != 0), "Written() is true exactly once a status has been sent")
		// what the underlying writer saw
		vx.Assert(spy.headers <= 1, "the underlying writer receives at most one status line")
		vx.Assert(!spy.bodyBeforeHd, "the status line precedes any body byte or flush")
		vx.Assert((spy.headers == 1) == (ref.status != 0), "status line sent iff reported")
		if spy.headers == 1 {
			vx.Assert(spy.firstCode == ref.status, "the status sent is the status reported")
		}
		vx.Assert(spy.bytes == ref.size, "bytes accepted downstream equal Size()")
		vx.Assert(!hookSawHeader && !hookSawStatus, "before-hooks run before the status reaches the underlying writer")
		if ref.status != 0 {
			// hooks registered before the first write ran exactly once, in reverse order
			ok := len(ran) == len(registered)
			if ok {
				for i := range ran {
					if ran[i] != registered[len(registered)-1-i] {
						ok = false
					}
				}
			}
			vx.Assert(ok, "before-hooks run exactly once in reverse registration order")
		} else {
			vx.Assert(len(ran) == 0, "no hook runs before the first write")
		}
	}
	vx.Observe("final", method, ref.status, ref.size, spy.headers, spy.bytes, spy.flushes, len(ran))
}

// VH_C13_step: one operation from an arbitrary state satisfying the
// invariant Inv; Inv and the step's post-condition are asserted afterwards.
// Covers operation sequences of any length (k-step shows Inv is not vacuous).
func VH_C13_step() {
	method := vx.String(4)
	sent := vx.Bool()           // a status has been sent already
	status0 := vx.Int(100, 999) // ... this one
	size0 := vx.Int(0, 1<<20)
	nhooks := vx.Int(0, 3) // hooks registered and not yet run (only possible while !sent)

	spy := &vSpy{shortWrites: true}
	rw := &responseWriter{ResponseWriter: spy, method: method}
	var ran []int
	hookSawHeader := false
	pre := vRef{}
	if sent {
		// Inv: status != 0 <=> the status has reached the underlying writer <=> spy.headers == 1; firstCode == status.
		// The status is sent through the writer itself (whatever it uses to remember that is its own business).
		rw.WriteHeader(status0)
		vx.Assume(spy.headers == 1 && spy.firstCode == status0)
		pre.status = status0
		if method == "HEAD" {
			vx.Assume(size0 == 0) // Inv: HEAD => nothing forwarded
		}
		rw.size = size0
		spy.bytes = size0
		pre.size = size0
		// hooks registered before the header have run already; late ones never run
	} else {
		vx.Assume(size0 == 0) // Inv: size == spy.bytes == 0 before any status
		n := nhooks
		for id := 0; id < n; id++ {
			id := id
			rw.beforeFuncs = append(rw.beforeFuncs, func(ResponseWriter) {
				ran = append(ran, id)
				if spy.headers != 0 {
					hookSawHeader = true
				}
			})
		}
	}
	pending := len(rw.beforeFuncs)
	var w ResponseWriter = rw
	ref := pre

	op := vx.Choice(4)
	switch op {
	case 3:
		n := vx.Int(0, 2)
		before := spy.bytes
		_, _ = io.Copy(w, &vPlainReader{data: make([]byte, n)})
		if n > 0 && ref.status == 0 {
			ref.status = 200
		}
		fwd := spy.bytes - before
		ref.size += fwd
		if method == "HEAD" {
			vx.Assert(fwd == 0, "HEAD forwards no body bytes")
		}
	case 0:
		code := vx.Int(100, 999)
		w.WriteHeader(code)
		if ref.status == 0 {
			ref.status = code
		}
	case 1:
		n := vx.Int(0, 2)
		buf := make([]byte, n)
		before := spy.bytes
		got, _ := w.Write(buf)
		if ref.status == 0 {
			ref.status = 200
		}
		fwd := spy.bytes - before
		ref.size += fwd
		vx.Assert(got == fwd, "Write returns what the underlying writer accepted")
		if method == "HEAD" {
			vx.Assert(fwd == 0, "HEAD forwards no body bytes")
		}
	case 2:
		w.Flush()
		if ref.status == 0 {
			ref.status = 200
		}
	}
	// post-condition and Inv
	vx.Assert(w.Status() == ref.status, "step: Status()")
	vx.Assert(w.Size() == ref.size, "step: Size()")
	vx.Assert(w.Written() == (ref.status != 0), "step: Written()")
	// every operation commits the response, except a copy of zero bytes
	vx.Assert(spy.headers <= 1 && (spy.headers == 1) == (ref.status != 0), "step: exactly one status line after any operation that commits the response")
	if ref.status != 0 {
		vx.Assert(spy.firstCode == ref.status, "step: status sent == status reported")
	}
	vx.Assert(!spy.bodyBeforeHd, "step: status precedes body/flush")
	vx.Assert(spy.bytes == ref.size, "step: Inv size == forwarded bytes")
	vx.Assert(!hookSawHeader, "step: hooks run before the status reaches the underlying writer")
	if sent {
		vx.Assert(len(ran) == 0 && ref.status == pre.status, "step: after the first status nothing re-runs and the status is frozen")
	} else if ref.status == 0 {
		// a copy of zero bytes commits nothing: hooks stay pending, a later status is the first one
		vx.Assert(len(ran) == 0 && spy.headers == 0, "step: an operation that sends nothing runs no hook")
		vx.Observe("step", op, sent, method, ref.status, ref.size-pre.size, len(ran))
		return
	} else {
		ok := len(ran) == pending
		if ok {
			for i := range ran {
				if ran[i] != pending-1-i {
					ok = false
				}
			}
		}
		vx.Assert(ok, "step: pending hooks run exactly once in reverse order")
	}
	// a second, arbitrary WriteHeader never reaches the underlying writer
	w.WriteHeader(vx.Int(100, 999))
	vx.Assert(spy.headers == 1 && w.Status() == ref.status, "step: later WriteHeader is ignored")
	vx.Observe("step", op, sent, method, ref.status, ref.size-pre.size, len(ran))
}
