//go:build verif

package flamego

// C17 harness: Render sends the given status, the matching Content-Type
// (before the status line) and the body; the renderer is resolvable by every
// later handler of the request.

import (
	"bytes"
	"encoding/json"
	"encoding/xml"
	"io"
	"net/http"
	"net/url"
	"strings"

	"github.com/flamego/flamego/internal/vx"
)

func init() {
	vx.Register("VH_C17_render", VH_C17_render)
}

// vCTSpy additionally captures the Content-Type header at the moment the
// status line is sent.
type vCTSpy struct {
	vSpy
	ctAtStatus string
	hadCT      bool
}

func (s *vCTSpy) WriteHeader(code int) {
	if s.headers == 0 {
		vs := s.Header()["Content-Type"]
		if len(vs) > 0 {
			s.ctAtStatus, s.hadCT = vs[0], true
		}
	}
	s.vSpy.WriteHeader(code)
}

type vXMLDoc struct {
	XMLName xml.Name `xml:"doc"`
	V       string   `xml:"v"`
}

func VH_C17_render() {
	kind := vx.Param("kind")
	status := vx.Int(100, 999)
	var opts []RenderOptions
	charset := "utf-8"
	jsonIndent, xmlIndent := "", ""
	if vx.Bool() {
		o := RenderOptions{}
		if vx.Bool() {
			o.Charset = vx.String(2)
			if o.Charset != "" {
				charset = o.Charset
			}
		}
		if vx.Bool() {
			o.JSONIndent, o.XMLIndent = "  ", "\t"
			jsonIndent, xmlIndent = "  ", "\t"
		}
		opts = append(opts, o)
	}
	text := vx.String(vx.ParamInt("len"))
	xv := 0 // which XML value: 0 a document, 1 an empty slice, 2 a nil pointer (both encode to zero bytes)
	if kind == "xml" {
		xv = vx.Choice(3)
	}
	jv := 0 // which JSON value: 0 a string, 1 an already encoded message (not in compact form), 2 a nil message (encodes to null)
	if kind == "json" {
		jv = vx.Choice(3)
	}
	var jval interface{} = "VAL"
	switch jv {
	case 1:
		jval = json.RawMessage(`{"a": [1, 2]}`)
	case 2:
		jval = json.RawMessage(nil)
	}
	late := vx.Bool() // render from the second handler after Renderer instead of the first

	f := NewWithLogger(io.Discard)
	if vx.Bool() {
		// a middleware in front of the Renderer has already put a Content-Type on the response
		f.Use(func(c Context) { c.ResponseWriter().Header().Set("Content-Type", "text/html; charset=x") })
	}
	if vx.Bool() {
		// another Renderer with options of its own runs first: the one under test is configured by its own options only
		f.Use(Renderer(RenderOptions{Charset: "iso-8859-1", JSONIndent: "\t\t", XMLIndent: "    "}))
	}
	f.Use(Renderer(opts...))
	do := func(r Render) {
		switch kind {
		case "json":
			r.JSON(status, jval)
		case "xml":
			switch xv {
			case 0:
				r.XML(status, vXMLDoc{V: "VAL"})
			case 1:
				r.XML(status, []vXMLDoc{})
			case 2:
				r.XML(status, (*vXMLDoc)(nil))
			}
		case "binary":
			r.Binary(status, []byte(text))
		case "text":
			r.PlainText(status, text)
		}
	}
	f.AutoHead(true)
	nested := vx.ParamInt("nested") == 1
	var subSpy *vCTSpy
	f.Get("/sub", func(r Render) { r.PlainText(299, "SUB") })
	f.Get("/", func(r Render) {
		if nested {
			// the handler already holds its Render, then another request passes the
			// same Renderer middleware (a sub-request dispatched through the application)
			subSpy = &vCTSpy{}
			f.ServeHTTP(subSpy, &http.Request{Method: "GET", URL: &url.URL{Path: "/sub"}, Header: http.Header{}})
		}
		if !late {
			do(r)
		}
	}, func(r Render) { do(r) })

	// an earlier request of the same application (HEAD or GET, possibly with a client that stops reading):
	// nothing of it may leak into the response under test
	vx.PoolReuse(true)
	if vx.ParamInt("prior") == 1 {
		pm := "GET"
		if vx.Bool() {
			pm = "HEAD"
		}
		prior := &vCTSpy{}
		prior.shortWrites = vx.Bool()
		f.ServeHTTP(prior, &http.Request{Method: pm, URL: &url.URL{Path: "/"}, Header: http.Header{}})
	}
	spy := &vCTSpy{}
	f.ServeHTTP(spy, &http.Request{Method: "GET", URL: &url.URL{Path: "/"}, Header: http.Header{}})
	vx.PoolReuse(false)

	wantCT := ""
	switch kind {
	case "json":
		wantCT = "application/json; charset=" + charset
	case "xml":
		wantCT = "text/xml; charset=" + charset
	case "binary":
		wantCT = "application/octet-stream"
	case "text":
		wantCT = "text/plain; charset=" + charset
	}
	if nested {
		vx.Assert(subSpy != nil && subSpy.headers == 1 && subSpy.firstCode == 299 && string(subSpy.body) == "SUB",
			"C17: a renderer belongs to its own request (the sub-request gets exactly its own response)")
	}
	vx.Assert(spy.headers == 1 && spy.firstCode == status, "C17: exactly the given status is sent")
	vx.Assert(spy.hadCT && spy.ctAtStatus == wantCT, "C17: the matching Content-Type (with the configured charset) is set before the status line")
	switch kind {
	case "binary", "text":
		vx.Assert(string(spy.body) == text, "C17: bytes and strings are sent verbatim")
	case "json":
		if vx.Symbolic() {
			log := vx.StubLog()
			vx.Assert(len(log) >= 1 && (jv != 0 || log[len(log)-1] == "json.Encode \"VAL\" indent="+jsonIndent) &&
				strings.HasPrefix(log[len(log)-1], "json.Encode ") && strings.HasSuffix(log[len(log)-1], " indent="+jsonIndent) && string(spy.body) == "<json>",
				"C17: the body is exactly the JSON encoding of the given value (encoder bound to this request's writer, configured indentation)")
		} else if jv != 0 {
			var ref bytes.Buffer
			enc := json.NewEncoder(&ref)
			if jsonIndent != "" {
				enc.SetIndent("", jsonIndent)
			}
			_ = enc.Encode(jval)
			vx.Assert(string(spy.body) == ref.String(), "C17: the body is exactly the JSON encoding of the given value (encoder bound to this request's writer, configured indentation)")
		} else {
			var back string
			err := json.Unmarshal(spy.body, &back)
			vx.Assert(err == nil && back == "VAL", "C17: the body is exactly the JSON encoding of the given value (encoder bound to this request's writer, configured indentation)")
			vx.Assert(jsonIndent == "" || true, "C17: indentation (scalar body: nothing to indent)")
		}
	case "xml":
		if xv != 0 {
			vx.Assert(len(spy.body) == 0, "C17: a value whose XML encoding is empty gives an empty body (under the given status)")
		} else if vx.Symbolic() {
			log := vx.StubLog()
			vx.Assert(len(log) >= 1 && strings.HasPrefix(log[len(log)-1], "xml.Encode ") && strings.HasSuffix(log[len(log)-1], " indent="+xmlIndent) && string(spy.body) == "<xml>",
				"C17: the body is exactly the XML encoding of the given value (encoder bound to this request's writer, configured indentation)")
		} else {
			var back vXMLDoc
			err := xml.Unmarshal(spy.body, &back)
			vx.Assert(err == nil && back.V == "VAL", "C17: the body is exactly the XML encoding of the given value (encoder bound to this request's writer, configured indentation)")
			if xmlIndent != "" {
				vx.Assert(strings.Contains(string(spy.body), "\n\t<v>"), "C17: the configured XML indentation is applied")
			}
		}
	}
	vx.Observe("render", kind, xv, jv, late, spy.firstCode, spy.ctAtStatus)
}
