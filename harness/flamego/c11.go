//go:build verif

package flamego

// C11 harness: routes declared through nested Group / Combo / Routes / Any /
// AutoHead behave like their flat expansion. A registration program with
// symbolic statement guards, handler-list lengths, spare slice capacity and
// AutoHead toggles runs on the real router; afterwards every (method, path)
// of the template is requested and the handler list the router hands to the
// context is compared with the flat expansion computed next to it.

import (
	"net/http"
	"net/url"

	"github.com/flamego/flamego/internal/route"
	"github.com/flamego/flamego/internal/vx"
)

func init() {
	vx.Register("VH_C11_program", VH_C11_program)
}

type vFlat struct {
	method, path string
	ids          []int
}

type vProg struct {
	r      *router
	flat   []vFlat
	nextID int
	seen   []int // ids of the handlers of the chain last started
	spare  bool
}

// list returns n fresh marker handlers (with room to grow when spare is set:
// a caller's slice with spare capacity is ordinary Go) and their ids.
func (p *vProg) list(n int) ([]Handler, []int) {
	c := n
	if p.spare {
		c = n + 2
	}
	hs := make([]Handler, 0, c)
	var ids []int
	for i := 0; i < n; i++ {
		id := p.nextID
		p.nextID++
		hs = append(hs, func() { p.seen = append(p.seen, id) })
		ids = append(ids, id)
	}
	return hs, ids
}

func (p *vProg) expect(method, path string, groups [][]int, own []int) {
	var ids []int
	for _, g := range groups {
		ids = append(ids, g...)
	}
	ids = append(ids, own...)
	p.flat = append(p.flat, vFlat{method, path, ids})
}

var vC11Methods = []string{"GET", "POST", "PUT", "DELETE", "PATCH", "OPTIONS", "HEAD", "CONNECT", "TRACE"}

func VH_C11_program() {
	p := &vProg{spare: vx.Bool()}
	p.r = newRouter(func(w http.ResponseWriter, req *http.Request, params route.Params, handlers []Handler, _ urlPather) internalContext {
		return &vCtxList{p: p, handlers: handlers}
	}).(*router)
	r := p.r
	// which statements of the template are symbolic in this job (the others are off)
	mask := vx.Param("mask")
	// the two group prefixes (default "/g" and "/h"; jobs also use prefixes that share characters)
	G, H := vx.Param("g1"), vx.Param("g2")
	if G == "" {
		G = "/g"
	}
	if H == "" {
		H = "/h"
	}
	on := func(i int) bool {
		if i < len(mask) && mask[i] == '1' {
			return vx.Bool()
		}
		return false
	}
	nh := func() int { // 0..2 handlers
		if vx.ParamInt("lens") == 1 {
			return vx.Choice(3)
		}
		return 1
	}

	autoHead := vx.Bool()
	r.AutoHead(autoHead)
	if on(0) { // 0
		hs, ids := p.list(1 + vx.Choice(2))
		r.Get("/p1", hs...)
		p.expect("GET", "/p1", nil, ids)
		if autoHead {
			p.expect("HEAD", "/p1", nil, ids)
		}
	}
	if on(12) { // a HEAD route at top level whose path equals the group-relative path of a GET route declared below
		hs, ids := p.list(1)
		r.Head("/p3", hs...)
		p.expect("HEAD", "/p3", nil, ids)
	}
	g1, g1ids := p.list(nh())
	r.Group(G, func() {
		if on(1) { // 1
			hs, ids := p.list(1)
			r.Post("/p2", hs...)
			p.expect("POST", G+"/p2", [][]int{g1ids}, ids)
		}
		if on(2) { // 2
			autoHead = !autoHead
			r.AutoHead(autoHead)
		}
		g2, g2ids := p.list(nh())
		r.Group(H, func() {
			if on(3) { // 3
				hs, ids := p.list(1)
				r.Get("/p3", hs...)
				p.expect("GET", G+H+"/p3", [][]int{g1ids, g2ids}, ids)
				if autoHead {
					p.expect("HEAD", G+H+"/p3", [][]int{g1ids, g2ids}, ids)
				}
			}
			routesForm := 0
			if on(4) { // 4
				routesForm = 1 + vx.Choice(2)
			}
			switch routesForm {
			case 1:
				hs, ids := p.list(1)
				r.Routes("/p4", "GET, POST", hs...)
				p.expect("GET", G+H+"/p4", [][]int{g1ids, g2ids}, ids)
				p.expect("POST", G+H+"/p4", [][]int{g1ids, g2ids}, ids)
			case 2:
				hs, ids := p.list(1)
				args := append([]Handler{"POST"}, hs...)
				r.Routes("/p4", "GET", args...)
				p.expect("GET", G+H+"/p4", [][]int{g1ids, g2ids}, ids)
				p.expect("POST", G+H+"/p4", [][]int{g1ids, g2ids}, ids)
			}
			if on(5) { // 5
				hs, ids := p.list(1)
				r.Any("/p5", hs...)
				for _, m := range vC11Methods {
					p.expect(m, G+H+"/p5", [][]int{g1ids, g2ids}, ids)
				}
			}
		}, g2...)
		if on(6) { // 6
			common, cids := p.list(nh())
			combo := r.Combo("/c", common...)
			if vx.Bool() {
				hs, ids := p.list(1)
				combo.Get(hs...)
				p.expect("GET", G+"/c", [][]int{g1ids}, append(append([]int{}, cids...), ids...))
				if autoHead {
					p.expect("HEAD", G+"/c", [][]int{g1ids}, append(append([]int{}, cids...), ids...))
				}
				dup, _ := p.list(1)
				vx.Assert(vPanics(func() { combo.Get(dup...) }), "C11: Combo refuses the same method twice")
			}
			if vx.Bool() {
				hs, ids := p.list(1)
				combo.Post(hs...)
				p.expect("POST", G+"/c", [][]int{g1ids}, append(append([]int{}, cids...), ids...))
			}
			if vx.Bool() {
				hs, ids := p.list(1)
				combo.Delete(hs...)
				p.expect("DELETE", G+"/c", [][]int{g1ids}, append(append([]int{}, cids...), ids...))
			}
		}
		if on(9) { // an optional route for one method, then Any on its long form: the earlier route keeps that method
			hs1, ids1 := p.list(1)
			r.Post("/?o", hs1...)
			hs2, ids2 := p.list(1)
			r.Any("/o", hs2...)
			for _, m := range vC11Methods {
				p.expect(m, G+"/o", [][]int{g1ids}, ids2)
			}
			p.expect("POST", G+"/o", [][]int{g1ids}, ids1) // looked up last-wins: POST stays with the optional route
			p.expect("POST", G, [][]int{g1ids}, ids1)
		}
		if on(10) { // a route whose own path is empty: it is the group's path itself
			hs, ids := p.list(1)
			r.Get("", hs...)
			p.expect("GET", G, [][]int{g1ids}, ids)
			if autoHead {
				p.expect("HEAD", G, [][]int{g1ids}, ids)
			}
		}
	}, g1...)
	vx.Assert(len(r.groups) == 0, "C11: leaving a group restores the enclosing scope")
	if on(7) { // 7
		hs, ids := p.list(1)
		r.Get("/p7", hs...)
		p.expect("GET", "/p7", nil, ids)
		if autoHead {
			p.expect("HEAD", "/p7", nil, ids)
		}
	}
	if on(8) { // 8: a Combo outside any group
		common, cids := p.list(nh())
		combo := r.Combo("/tc", common...)
		if vx.Bool() {
			hs, ids := p.list(1)
			combo.Get(hs...)
			p.expect("GET", "/tc", nil, append(append([]int{}, cids...), ids...))
			if autoHead {
				p.expect("HEAD", "/tc", nil, append(append([]int{}, cids...), ids...))
			}
		}
		if vx.Bool() {
			hs, ids := p.list(1)
			combo.Post(hs...)
			p.expect("POST", "/tc", nil, append(append([]int{}, cids...), ids...))
		}
		if vx.Bool() {
			hs, ids := p.list(1)
			combo.Put(hs...)
			p.expect("PUT", "/tc", nil, append(append([]int{}, cids...), ids...))
		}
	}

	if on(11) { // one Combo used from two different groups: the same method twice is refused whatever the group
		k := vx.Choice(9)
		combo := r.Combo("/cz")
		hs, ids := p.list(1)
		reg := func(hh []Handler) {
			switch k {
			case 0:
				combo.Get(hh...)
			case 1:
				combo.Post(hh...)
			case 2:
				combo.Put(hh...)
			case 3:
				combo.Delete(hh...)
			case 4:
				combo.Patch(hh...)
			case 5:
				combo.Options(hh...)
			case 6:
				combo.Head(hh...)
			case 7:
				combo.Connect(hh...)
			case 8:
				combo.Trace(hh...)
			}
		}
		r.Group("/ga", func() { reg(hs) })
		p.expect(vC11Methods[k], "/ga/cz", nil, ids)
		if k == 0 && autoHead {
			p.expect("HEAD", "/ga/cz", nil, ids)
		}
		dup, _ := p.list(1)
		refused := vPanics(func() { r.Group("/gb", func() { reg(dup) }) })
		r.groups = r.groups[:0] // the panic left the group open
		vx.Assert(refused, "C11: Combo refuses the same method twice, whatever group it is called in")
	}

	// ---- every (method, path) of the template, after the whole program ran
	paths := []string{"/p1", G + "/p2", G + H + "/p3", G + H + "/p4", G + H + "/p5", G + "/c", "/p7", "/tc", "/p2", H + "/p3", G + "/p3", "/c", G + "/tc", G + "/o", G, "/o", G + "/", "/ga/cz", "/gb/cz", "/cz", "/p3"}
	allOK := true
	for _, path := range paths {
		for _, m := range vC11Methods {
			var want []int
			found := false
			for _, f := range p.flat {
				if f.method == m && f.path == path {
					want, found = f.ids, true
				}
			}
			p.seen = []int{-1}
			r.ServeHTTP(&vNullWriter{}, &http.Request{Method: m, URL: &url.URL{Path: path}, Header: http.Header{}})
			ok := true
			if !found {
				ok = len(p.seen) == 1 // the not-found chain has no marker handlers
			} else {
				ok = len(p.seen) == len(want)+1
				if ok {
					for i := range want {
						if p.seen[i+1] != want[i] {
							ok = false
						}
					}
				}
			}
			if !ok {
				allOK = false
				vx.Observe("mismatch", m, path, found, want, p.seen)
			}
		}
	}
	vx.Assert(allOK, "C11: every declared route exists for exactly its methods with the concatenated path and the concatenated handler list (outer group, inner group, own)")
	vx.Observe("program", len(p.flat), p.spare)
}

// vCtxList runs the marker handlers the router passed, in order.
type vCtxList struct {
	Context
	p        *vProg
	handlers []Handler
}

func (c *vCtxList) setAction(Handler) {}

func (c *vCtxList) run() {
	for _, h := range c.handlers {
		if f, ok := h.(func()); ok {
			f()
		}
	}
}
