//go:build verif

package flamego

// C05 harness (reduced claim, DESIGN.md §3/C05, §4): a sequential sufficient
// condition for race freedom and isolation. After set-up, during one request
// with symbolic path/header, every store the framework executes must target
// memory allocated for this request, or be synchronised (sync.Once, mutex,
// atomic). The interpreter's store monitor checks every Store / MapUpdate /
// in-place append / copy / reflect.Set against the memory reachable from
// package globals at the time of the mark.

import (
	"io"
	"net/http"
	"net/url"

	"github.com/flamego/flamego/internal/vx"
)

func init() {
	vx.Register("VH_C05_setup", VH_C05_setup)
	vx.Register("VH_C05_request", VH_C05_request)
}

type vReqVal struct{ tag int }

// vSvc is mapped at application scope by its concrete type and asked for by
// handlers through the interface vSvcI (resolution by implementor scan).
type vSvcI interface{ Name() string }
type vSvc struct{ name string }

func (s *vSvc) Name() string { return s.name }

var vApp, vAppFresh *Flame

// VH_C05_setup builds the same application twice: one serves the whole
// history of a path, the other only ever serves the request under observation.
func VH_C05_setup() {
	SetEnv(EnvTypeProd) // the panic page of development mode embeds a stack trace; what Recovery does is the same in every mode
	vApp = vBuildApp()
	vAppFresh = vBuildApp()
}

func vBuildApp() *Flame {
	f := NewWithLogger(io.Discard)
	f.Use(Recovery())
	f.Use(func(c Context) { // a logger-like middleware: reads the writer after the rest of the chain ran
		c.Next()
		if c.ResponseWriter().Status()+c.ResponseWriter().Size() > 0 {
			c.ResponseWriter().Header().Set("X-After", "1") // request-local effect only
		}
	})
	f.Use(func(c Context) { c.Map(&vReqVal{tag: len(c.Request().URL.Path)}) }) // request-scoped Map
	f.Use(Renderer())
	f.Use(func() {}) // a fifth middleware: the application's handler list now has spare capacity (len 5, cap 8), as lists grown by append do
	f.Map(&vSvc{name: "svc"})
	h := func(c Context, v *vReqVal, r Render, svc vSvcI) string {
		out := svc.Name() + c.Param("id") + c.Param("rest") + c.Param("opt") + c.Param("name")
		sum := 0
		for k, val := range c.Params() { // order-insensitive use of the whole map
			sum += len(k)*7 + len(val)
		}
		out += string(rune('A' + sum%26))
		out += c.URLPath("named", "name", c.Param("name"))
		out += c.Query("q", "d")
		// a handler may keep a note in its own request's bind parameters: the map is the request's own
		out += c.Param("seen")
		c.Params()["seen"] = "x" + c.Query("q", "d")
		c.ResponseWriter().Header().Set("X-Tag", "t")
		if v.tag%2 == 0 {
			r.PlainText(200, out)
			return ""
		}
		return out
	}
	f.Get("/s/t", h)
	f.Get("/r/{id: /[0-9]+/}", h)
	f.Get("/m/{rest: **}", h)
	f.Get("/o/?{opt}", h)
	f.Get("/h", h).Headers("X-K", "v")
	f.Get("/d/{id}", h).Headers("X-K", "v") // a constrained dynamic route with an unconstrained fallback
	f.Get("/d/{rest: **}", func(c Context) string { return "fallback:" + c.Param("rest") })
	f.Get("/n/{name}", h).Name("named")
	f.Group("/g", func() {
		f.Combo("/c").Get(h).Post(h)
	}, func(c Context) {})
	// a route that panics: Recovery walks the stack, reads source files and answers 500
	f.Get("/p/{id}", func(c Context) { panic("boom:" + c.Param("id")) })
	f.NotFound(func() string { return "nf" })
	return f
}

func vServeOnce(path string, hasHdr bool, method string) (int, string) {
	return vServeOn(vApp, path, hasHdr, method)
}

func vServeOn(app *Flame, path string, hasHdr bool, method string) (int, string) {
	hdr := http.Header{}
	if hasHdr {
		hdr["X-K"] = []string{"v"}
	}
	spy := &vSpy{}
	req := &http.Request{Method: method, URL: &url.URL{Path: path, RawQuery: "q=1"}, Header: hdr}
	app.ServeHTTP(spy, req)
	return spy.firstCode, string(spy.body)
}

func VH_C05_request() {
	vx.Monitor(true)
	vx.PoolReuse(true) // a sync.Pool may hand back what was Put: objects must not be used after Put
	vx.EpochMark()
	path := vx.Param("prefix") + vx.String(vx.ParamInt("n"))
	hasHdr := vx.Bool()
	method := "GET"
	if vx.Bool() {
		method = "POST"
	}
	if vx.ParamInt("prior") == 1 {
		// an earlier request for the same path with other headers / another method
		pm := "GET"
		if vx.Bool() {
			pm = "POST"
		}
		vServeOnce(path, vx.Bool(), pm)
	}
	code1, body1 := vServeOnce(path, hasHdr, method)
	// the same request on an application that has served nothing else
	code0, body0 := vServeOn(vAppFresh, path, hasHdr, method)
	vx.Assert(code1 == code0 && body1 == body0, "C05: a request's response does not depend on requests served before it (same answer as from a fresh application)")
	// the same request again: same response (no state carried over between requests)
	code2, body2 := vServeOnce(path, hasHdr, method)
	vx.Assert(code1 == code2 && body1 == body2, "C05: a request's response does not depend on requests served before it")
	vx.Monitor(false)
	vx.PoolReuse(false)
	vx.Observe("served", path, method, hasHdr, code1, body1)
}
