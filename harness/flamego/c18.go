//go:build verif

package flamego

// C18 harness: request accessors are total and uniform; cookies round-trip.

import (
	"net/http"
	"net/url"
	"strconv"
	"strings"

	"github.com/flamego/flamego/inject"
	"github.com/flamego/flamego/internal/vx"
)

func init() {
	vx.Register("VH_C18_query", VH_C18_query)
	vx.Register("VH_C18_typed", VH_C18_typed)
	vx.Register("VH_C18_cookie", VH_C18_cookie)
	vx.Register("VH_C18_escape", VH_C18_escape)
}

func vCtxFor(req *http.Request, params Params, w http.ResponseWriter) *context {
	return &context{
		Injector:       inject.New(),
		responseWriter: NewResponseWriter(req.Method, w),
		request:        &Request{Request: req},
		params:         params,
	}
}

// vPlain: a query value that needs no escaping (so that "q="+v parses to v).
func vPlain(v string) bool {
	ok := true
	for i := 0; i < len(v); i++ {
		c := v[i]
		ok = vx.And(ok, vx.And(vx.And(c != '&', c != ';'), vx.And(vx.And(c != '%', c != '+'), c != '=')))
	}
	return ok
}

// VH_C18_query: the string accessors, with an arbitrary value.
func VH_C18_query() {
	n := vx.ParamInt("vlen")
	present := vx.Bool()
	v := vx.String(n)
	vx.Assume(vPlain(v))
	hasDef := vx.Bool()
	def := vx.String(1)
	// the parameter name may need escaping on the wire (ids[] => ids%5B%5D, "first name" => first+name)
	names := []string{"q", "ids[]", "first name", "a/b"}
	qname := names[vx.ParamInt("name")%len(names)]
	if vx.ParamInt("name") < 0 {
		qname = names[vx.Choice(len(names))]
	}
	raw := "other=1"
	if present {
		raw = url.QueryEscape(qname) + "=" + v + "&other=1"
	}
	req := &http.Request{Method: "GET", URL: &url.URL{Path: "/", RawQuery: raw}, Header: http.Header{}}
	c := vCtxFor(req, Params{"p": v}, &vSpy{})
	var defs []string
	if hasDef {
		defs = []string{def}
	}
	// one rule for every accessor: present and non-empty => the value; else the default or zero
	want := ""
	if present && v != "" {
		want = v
	} else if hasDef {
		want = def
	}
	switch vx.Param("acc") {
	case "query":
		vx.Assert(c.Query(qname, defs...) == want, "C18: Query returns the value when present and non-empty, else the default or \"\"")
		vx.Assert(c.Param("p") == v && c.Param("absent") == "", "C18: Param returns the bind value, \"\" when absent")
		// a middleware rewrites the query (strips a token, adds a page): every call reads the request as it is then
		present2 := vx.Bool()
		raw2 := "other=2"
		want2 := ""
		if present2 {
			raw2 = url.QueryEscape(qname) + "=zz&other=2"
			want2 = "zz"
		} else if hasDef {
			want2 = def
		}
		c.Request().URL.RawQuery = raw2
		vx.Assert(c.Query(qname, defs...) == want2, "C18: Query reads the request as it is at the time of the call")
		got2 := c.QueryStrings(qname)
		vx.Assert((present2 && len(got2) == 1 && got2[0] == "zz") || (!present2 && len(got2) == 0), "C18: QueryStrings reads the request as it is at the time of the call")
	case "trim":
		vx.Assert(c.QueryTrim(qname, defs...) == strings.TrimSpace(want), "C18: QueryTrim is Query with surrounding blanks removed")
	case "unescape":
		unesc, err := url.QueryUnescape(want)
		if err != nil {
			unesc = ""
		}
		vx.Assert(c.QueryUnescape(qname, defs...) == unesc, "C18: QueryUnescape decodes the value (zero on malformed text)")
	case "strings":
		var sdefs [][]string
		if hasDef {
			sdefs = [][]string{{def}}
		}
		got := c.QueryStrings(qname, sdefs...)
		if present {
			vx.Assert(len(got) == 1 && got[0] == v, "C18: QueryStrings returns the values when present")
		} else if hasDef {
			vx.Assert(len(got) == 1 && got[0] == def, "C18: QueryStrings returns the default when absent")
		} else {
			vx.Assert(got != nil && len(got) == 0, "C18: QueryStrings returns an empty list when absent without default")
		}
	}
	vx.Observe("query", vx.Param("acc"), present, hasDef, want)
}

var vNumMenu = []string{"", "0", "12", "-3", "+7", "x", "1x", "9223372036854775807", "9223372036854775808", "-9223372036854775809",
	"1e3", "0x10", " 5", "1.5", "true", "T", "FALSE", "t", "yes", "NaN", "Inf", "-0", "1_0", "٣",
	"010", "08", "-0777", "0b11", "0o7", "0X1f", "0_1", "+7", "9223372036854775808"}

// VH_C18_typed: the typed accessors over a menu of texts, presence and defaults symbolic.
func VH_C18_typed() {
	present := vx.Bool()
	v := vNumMenu[vx.Choice(len(vNumMenu))]
	hasDef := vx.Bool()
	defI := vx.Int(-5, 5)
	raw := "other=1"
	if present {
		raw = "q=" + url.QueryEscape(v)
	}
	req := &http.Request{Method: "GET", URL: &url.URL{Path: "/", RawQuery: raw}, Header: http.Header{}}
	c := vCtxFor(req, Params{"p": v}, &vSpy{})
	useDef := !(present && v != "")
	text := ""
	if !useDef {
		text = v
	}

	wantI64, _ := strconv.ParseInt(text, 10, 64)
	wantI, _ := strconv.ParseInt(text, 10, 0)
	wantB, _ := strconv.ParseBool(text)
	wantF, _ := strconv.ParseFloat(text, 64)
	if hasDef {
		if useDef {
			vx.Assert(c.QueryInt("q", defI) == defI, "C18: QueryInt default")
			vx.Assert(c.QueryInt64("q", int64(defI)) == int64(defI), "C18: QueryInt64 default")
			vx.Assert(c.QueryBool("q", true) == true, "C18: QueryBool default")
			vx.Assert(c.QueryFloat64("q", 2.5) == 2.5, "C18: QueryFloat64 default")
		} else {
			vx.Assert(c.QueryInt("q", defI) == int(wantI), "C18: QueryInt parses base 10, zero on malformed text")
			vx.Assert(c.QueryInt64("q", int64(defI)) == wantI64, "C18: QueryInt64 parses base 10, zero on malformed text")
			vx.Assert(c.QueryBool("q", true) == wantB, "C18: QueryBool standard boolean parsing")
			f := c.QueryFloat64("q", 2.5)
			vx.Assert(f == wantF || (f != f && wantF != wantF), "C18: QueryFloat64 standard float parsing")
		}
	} else {
		vx.Assert(c.QueryInt("q") == int(wantI), "C18: QueryInt without default")
		vx.Assert(c.QueryInt64("q") == wantI64, "C18: QueryInt64 without default")
		vx.Assert(c.QueryBool("q") == wantB, "C18: QueryBool without default")
		f := c.QueryFloat64("q")
		vx.Assert(f == wantF || (f != f && wantF != wantF), "C18: QueryFloat64 without default")
	}
	pI, _ := strconv.Atoi(v)
	pI64, _ := strconv.ParseInt(v, 10, 64)
	vx.Assert(c.ParamInt("p") == pI && c.ParamInt64("p") == pI64, "C18: ParamInt/ParamInt64 parse base 10, zero on malformed text")
	vx.Assert(c.ParamInt("absent") == 0 && c.ParamInt64("absent") == 0, "C18: absent bind parameter => zero")
	vx.Observe("typed", present, hasDef, v)
}

// VH_C18_escape: lemmas L1 and L2 on the real net/url code, for every value.
func VH_C18_escape() {
	s := vx.String(vx.ParamInt("vlen"))
	e := url.QueryEscape(s)
	ok := true
	for i := 0; i < len(e); i++ {
		c := e[i]
		alnum := vx.Or(vx.Or(vx.And(c >= 'a', c <= 'z'), vx.And(c >= 'A', c <= 'Z')), vx.And(c >= '0', c <= '9'))
		punct := vx.Or(vx.Or(vx.Or(c == '.', c == '_'), vx.Or(c == '~', c == '-')), vx.Or(c == '%', c == '+'))
		ok = vx.And(ok, vx.Or(alnum, punct))
	}
	vx.Assert(ok, "C18/L1: url.QueryEscape produces only [A-Za-z0-9._~%+-]")
	back, err := url.QueryUnescape(e)
	vx.Assert(err == nil && back == s, "C18/L2: QueryUnescape(QueryEscape(s)) == s")
	vx.Observe("escape", s, e)
}

// VH_C18_cookie: lemma L3 (flamego's own code) and the composed round trip.
func VH_C18_cookie() {
	n := vx.ParamInt("vlen")
	s := vx.String(n)
	spy := &vSpy{}
	req := &http.Request{Method: "GET", URL: &url.URL{Path: "/"}, Header: http.Header{}}
	c := vCtxFor(req, nil, spy)
	if vx.Param("part") == "stored" {
		vCookieStored()
		return
	}
	c.SetCookie(http.Cookie{Name: "k", Value: s})
	set := spy.Header().Get("Set-Cookie")
	vx.Assert(set == "k="+url.QueryEscape(s), "C18/L3: SetCookie stores the escaped value")

	// the client sends back what it was given (L4: net/http is the identity on L1's alphabet)
	raw := strings.TrimPrefix(set, "k=")
	req2 := &http.Request{Method: "GET", URL: &url.URL{Path: "/"}, Header: http.Header{"Cookie": []string{"k=" + raw}}}
	c2 := vCtxFor(req2, nil, &vSpy{})
	vx.Assert(c2.Cookie("k") == s, "C18: a cookie value written with SetCookie is read back byte for byte")
	vx.Assert(c2.Cookie("absent") == "", "C18: an absent cookie yields \"\"")
	if vx.Bool() {
		// several cookies in one response, one name a prefix of another: each keeps its own header line
		spyM := &vSpy{}
		cM := vCtxFor(req, nil, spyM)
		cM.SetCookie(http.Cookie{Name: "kid", Value: s})
		cM.SetCookie(http.Cookie{Name: "k", Value: "v"})
		cM.SetCookie(http.Cookie{Name: "ki", Value: "w"})
		lines := spyM.Header()["Set-Cookie"]
		vx.Assert(len(lines) == 3 && lines[0] == "kid="+url.QueryEscape(s) && lines[1] == "k=v" && lines[2] == "ki=w",
			"C18: every SetCookie call adds its own header line; the cookies of one response do not disturb each other")
	}

	vx.Observe("cookie", s, set)
}

// vCookieStored: arbitrary stored text over the cookie alphabet is decoded, or
// returned raw when it cannot be decoded.
func vCookieStored() {
	t := vx.String(3)
	okAlpha := true
	for i := 0; i < len(t); i++ {
		ch := t[i]
		okAlpha = vx.And(okAlpha, vx.Or(vx.Or(vx.And(ch >= 'a', ch <= 'z'), vx.And(ch >= '0', ch <= '9')), vx.Or(ch == '%', ch == '+')))
	}
	vx.Assume(okAlpha)
	req3 := &http.Request{Method: "GET", URL: &url.URL{Path: "/"}, Header: http.Header{"Cookie": []string{"k=" + t}}}
	c3 := vCtxFor(req3, nil, &vSpy{})
	want, err := url.QueryUnescape(t)
	if err != nil {
		want = t
	}
	vx.Assert(c3.Cookie("k") == want, "C18: Cookie returns the unescaped value, the original when it cannot be unescaped")
	vx.Observe("stored", t, want)
}
