#!/usr/bin/env python3
"""Runs the repository's own test suite (guard off) and compares with BASELINE.json's stable_pass list."""
import json, subprocess, sys, os
env = dict(os.environ, GOFLAGS="-mod=mod", GOPROXY="off", GOSUMDB="off")
base = json.load(open("/root/.vp/BASELINE.json"))
r = subprocess.run(["go", "test", "-json", "-vet=off", "-count=1", "-timeout", "25m", "./..."], cwd=os.environ.get("VERIF_REPO", "/repo"), env=env, capture_output=True, text=True)
status = {}
for line in r.stdout.splitlines():
    try:
        e = json.loads(line)
    except Exception:
        continue
    if e.get("Test") and e.get("Action") in ("pass", "fail", "skip"):
        status[e["Package"] + "::" + e["Test"]] = e["Action"]
bad = [t for t in base["stable_pass"] if status.get(t) != "pass"]
print("stable_pass: %d, passing now: %d, not passing: %d" % (len(base["stable_pass"]), len(base["stable_pass"]) - len(bad), len(bad)))
for t in bad[:20]:
    print("  NOT PASSING:", t, status.get(t))
sys.exit(1 if bad else 0)
