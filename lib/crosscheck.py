#!/usr/bin/env python3
"""Second and third opinion on the solver's answers: the transcript of one
worker's incremental z3 session (every declaration, definition, push/pop,
assertion and check-sat, with the answers z3 4.8.12 gave) is replayed
non-interactively on z3-new 5.1.0 and cvc5 1.0, and the sat/unsat sequences
are compared position by position."""
import glob
import os
import re
import subprocess
import time


def split_transcript(path, max_checks):
    cmds, answers = [], []
    checks = 0
    for line in open(path, errors="replace"):
        if line.startswith("; <- "):
            a = line[5:].strip()
            if a in ("sat", "unsat", "unknown"):
                answers.append(a)
            continue
        if "(check-sat)" in line:
            checks += 1
        cmds.append(line)
        if checks >= max_checks and line.startswith("(pop"):
            break
    return "".join(cmds), answers[:checks]


def replay(solver, script, timeout):
    if solver == "cvc5":
        script = "(set-logic QF_BV)\n" + script.replace("(reset)\n", "(reset)\n(set-logic QF_BV)\n")
        cmd = ["cvc5", "--incremental", "--lang=smt2", "--produce-models"]
    else:
        cmd = [solver, "-in"]
    t0 = time.time()
    try:
        r = subprocess.run(cmd, input=script, capture_output=True, text=True, timeout=timeout)
    except subprocess.TimeoutExpired:
        return None, time.time() - t0, "timeout"
    out = [l.strip() for l in r.stdout.splitlines()]
    errs = [l for l in out if l.startswith("(error")]
    return [l for l in out if l in ("sat", "unsat", "unknown")], time.time() - t0, (errs[0] if errs else "")


def crosscheck(logdir, max_checks=4000, timeout=600):
    files = sorted(glob.glob(os.path.join(logdir, "smt-*.smt2")), key=os.path.getsize, reverse=True)
    if not files:
        return {"error": "no transcript"}
    script, answers = split_transcript(files[0], max_checks)
    res = {"transcript_check_sats": len(answers), "primary": "z3 4.8.12", "others": {}}
    for solver in ("z3-new", "cvc5"):
        got, dt, err = replay(solver, script, timeout)
        if got is None:
            res["others"][solver] = {"status": err, "s": round(dt, 1)}
            continue
        n = min(len(got), len(answers))
        # (get-value ...) lines are ignored; only verdicts are compared
        diff = [k for k in range(n) if got[k] != answers[k] and "unknown" not in (got[k], answers[k])]
        res["others"][solver] = {"verdicts_compared": n, "disagreements": len(diff), "first_disagreement_at": diff[0] if diff else None,
                                 "error_lines": err, "s": round(dt, 1), "complete": len(got) == len(answers)}
    return res
