"""Per-property job generators and metadata."""
import json
import os
import random

from vcheck import Spec, VERIF

SPECS = {}


def replay(pid, path):
    import vcheck, tempfile, shutil
    rec = json.load(open(path))
    v = rec["violation"]
    job = v["job"]
    spec = SPECS[pid]
    tmp = tempfile.mkdtemp(prefix="verif_replay_")
    try:
        pkg = None
        for j in spec.jobs("quick", 1):
            if j["body"] == job["body"]:
                pkg = j["pkg_short"]
                setup = j.get("setup", "")
        cases = {pkg: [{"id": "replay", "setup": setup, "body": job["body"], "params": job["params"], "replay": v["replay"]}]}
        res, err = vcheck.native_replay(spec.files, cases, tmp)
        if err:
            print(err)
            return 2
        r = res["replay"]
        print(json.dumps(r, indent=1))
        if r.get("failures") or r.get("panic"):
            print("VIOLATION property=%s replay=%s" % (pid, path))
            return 1
        return 0
    finally:
        shutil.rmtree(tmp, ignore_errors=True)


# --------------------------------------------------------------------------- C13
def c13_jobs(tier, seed):
    ks = [3, 4] if tier == "quick" else [4, 5, 6]
    jobs = []
    for k in ks:
        for short in (0, 1):
            if short == 1 and k > (3 if tier == "quick" else 5):
                continue
            jobs.append({"pkg_short": "flamego", "body": "VH_C13_kstep", "params": {"k": k, "short": short},
                         "max_paths": 400000, "shards": 1 if k <= 3 else (6 if k == 4 else 16), "shard_depth": 6})
    jobs.append({"pkg_short": "flamego", "body": "VH_C13_step", "params": {}})
    return jobs


SPECS["C13"] = Spec(
    "C13", ["flamego/c13.go"], c13_jobs,
    assumptions=[
        "status codes in [100,999] (net/http panics outside that range)",
        "before-hooks neither panic nor call back into the writer (re-entrant sync.Once deadlocks in the real program)",
        "the underlying writer is a harness spy that is a Flusher but not a Hijacker/Pusher; its Write accepts a symbolic n<=len(b)",
        "sync.Once.Do is the intrinsic `if !done {f(); done=true}`, sync/atomic Load/Store are plain accesses",
        "one-step lemma covers histories of any length only modulo the stated invariant Inv (status!=0 <=> once done <=> one header sent; size==forwarded bytes; HEAD => 0 bytes)",
    ],
    bounds=lambda tier: {"k_step_sequence_length": [3, 4] if tier == "quick" else [4, 5, 6], "write_len_max": 2,
                         "method": "any 0..4 bytes", "status": "[100,999] symbolic", "hooks_in_step_lemma": "0..3",
                         "unwinding": "3e6 SSA instructions per path, call depth 400; exceeding either is reported inconclusive"},
    rule="k-step: every sequence of k operations drawn from {WriteHeader(code), Write(0..2 bytes), Flush, Before(hook)} with "
         "symbolic code/method/length; one-step: one operation from an arbitrary invariant-satisfying pre-state. A path is "
         "non-trivial when it contains at least one operation reaching the underlying writer.",
)
