"""Per-property job generators and metadata."""
import json
import os
import random

from vcheck import Spec, VERIF

SPECS = {}


def replay(pid, path):
    import vcheck, tempfile, shutil
    rec = json.load(open(path))
    v = rec["violation"]
    job = v["job"]
    spec = SPECS[pid]
    tmp = tempfile.mkdtemp(prefix="verif_replay_")
    try:
        pkg = None
        for j in spec.jobs("quick", 1):
            if j["body"] == job["body"]:
                pkg = j["pkg_short"]
                setup = j.get("setup", "")
        cases = {pkg: [{"id": "replay", "setup": setup, "body": job["body"], "params": job["params"], "replay": v["replay"]}]}
        res, err = vcheck.native_replay(spec.files, cases, tmp)
        if err:
            print(err)
            return 2
        r = res["replay"]
        print(json.dumps(r, indent=1))
        if v.get("kind") == "panic":
            reproduced = bool(r.get("panic"))
        else:
            reproduced = v["msg"] in (r.get("failures") or [])
        if reproduced:
            print("VIOLATION property=%s replay=%s" % (pid, path))
            print("  clause: %s" % v["msg"])
            return 1
        print("not reproduced on the current tree: the recorded clause does not fail for this input"
              " (other lines under \"failures\" only say that the input no longer drives the harness down the recorded path)")
        return 0
    finally:
        shutil.rmtree(tmp, ignore_errors=True)


# --------------------------------------------------------------------------- C13
def c13_jobs(tier, seed):
    ks = [3, 4] if tier == "quick" else [4, 5]  # five operation kinds: k=6 (15625 sequences x their splits) did not finish in an hour
    jobs = []
    for k in ks:
        for short in (0, 1):
            if short == 1 and k > (3 if tier == "quick" else 4):
                continue
            jobs.append({"pkg_short": "flamego", "body": "VH_C13_kstep", "params": {"k": k, "short": short},
                         "max_paths": 400000})
    # an underlying writer that is neither an http.Flusher nor an io.ReaderFrom
    jobs.append({"pkg_short": "flamego", "body": "VH_C13_kstep", "params": {"k": 3 if tier == "quick" else 4, "short": 0, "noflush": 1},
                 "max_paths": 400000})
    # before-hooks that register a further hook while they run
    jobs.append({"pkg_short": "flamego", "body": "VH_C13_kstep", "params": {"k": 3, "short": 0, "nest": 1},
                 "max_paths": 400000})
    jobs.append({"pkg_short": "flamego", "body": "VH_C13_step", "params": {}})
    return jobs


SPECS["C13"] = Spec(
    "C13", ["flamego/c13.go"], c13_jobs,
    assumptions=[
        "status codes in [100,999] (net/http panics outside that range)",
        "before-hooks neither panic nor write through the writer (re-entrant sync.Once deadlocks in the real program); in the nest=1 job every hook registers a further hook while it runs",
        "the underlying writer is a harness spy that is a Flusher but not a Hijacker/Pusher; its Write accepts a symbolic n<=len(b)",
        "sync.Once.Do is the intrinsic `if !done {f(); done=true}`, sync/atomic Load/Store are plain accesses",
        "one-step lemma covers histories of any length only modulo the stated invariant Inv (status!=0 <=> once done <=> one header sent; size==forwarded bytes; HEAD => 0 bytes)",
    ],
    bounds=lambda tier: {"k_step_sequence_length": [3, 4] if tier == "quick" else [4, 5], "write_len_max": 2,
                         "method": "any 0..4 bytes", "status": "[100,999] symbolic", "hooks_in_step_lemma": "0..3",
                         "unwinding": "3e6 SSA instructions per path, call depth 400; exceeding either is reported inconclusive"},
    rule="k-step: every sequence of k operations drawn from {WriteHeader(code), Write(0..2 bytes), Flush, Before(hook)} with "
         "symbolic code/method/length; one-step: one operation from an arbitrary invariant-satisfying pre-state. A path is "
         "non-trivial when it contains at least one operation reaching the underlying writer.",
)


# --------------------------------------------------------------------------- routing (C01, C02, C07)
ROUTE_FILES = ["route/parse.go", "route/oracle.go", "route/c01.go"]

# segment menu: (text template with %d for the position, kind)
SEG_MENU = [
    ("a", "s"), ("b", "s"), ("{x%d}", "p"), ("{y%d}", "p"), ("{r%d: /a+/}", "r"), ("{d%d: /[0-9]+/}", "r"),
    ("v{w%d}", "r"), ("{p%d: /a|ab/}{q%d: /b*/}", "r"), ("{m%d: **}", "m"), ("{m%d: **, capture: 2}", "m"), ("{**}", "m"),
    ("a.b", "s"), ("{e%d: /[0-9]+/}.j", "r"), ("{f%d: /x/, g%d: /y+/}", "r"),
]


def seg_text(item, pos):
    t, k = item
    return (t.replace("%d", str(pos)), k)


class SimTree:
    """Registration-validity model used only to pre-filter random route sets (C08 decides registration itself)."""

    def __init__(self):
        self.sub = {}    # prefix -> list of (text, kind)
        self.leaf = {}   # prefix -> list of (text, kind)

    def add(self, segs, optional):
        prefix = ""
        seen_all = False
        plan = []
        for j, (t, k) in enumerate(segs[:-1]):
            if t == "":
                return False
            subs = self.sub.get(prefix, [])
            if (t, k) not in subs:
                if k == "m" and any(kk == "m" for _, kk in subs):
                    return False
                if k == "m" and seen_all:
                    return False
                plan.append(("sub", prefix, (t, k)))
            if k == "m":
                if seen_all:
                    return False
                seen_all = True
            prefix += "/" + t
        t, k = segs[-1]
        lt = ("?" if optional else "") + t
        leaves = self.leaf.get(prefix, []) + [x[2] for x in plan if x[0] == "leaf" and x[1] == prefix]
        if any(lt == x for x, _ in leaves):
            return False
        if k == "m" and any(kk == "m" for _, kk in leaves):
            return False
        plan.append(("leaf", prefix, (lt, k)))
        if optional:
            if len(segs) < 2:
                pt, pk, pprefix = "", "s", ""  # "/?x": the short form is "/"
            else:
                pt, pk = segs[-2]
                pprefix = prefix[: len(prefix) - len(pt) - 1]
            leaves = self.leaf.get(pprefix, [])
            if any(pt == x for x, _ in leaves):
                return False
            if pk == "m" and any(kk == "m" for _, kk in leaves):
                return False
            plan.append(("leaf", pprefix, (pt, pk)))
        for what, pre, item in plan:
            (self.sub if what == "sub" else self.leaf).setdefault(pre, []).append(item)
        return True


def random_route_set(rng, menu, max_routes=4, max_segs=3):
    tree = SimTree()
    texts = []
    for _ in range(rng.randint(1, max_routes)):
        n = rng.randint(1, max_segs)
        segs = [seg_text(rng.choice(menu), j) for j in range(n)]
        if sum(1 for t, _ in segs if t == "{**}") > 1:
            continue  # the bind name "**" would be reused along the route
        optional = rng.random() < 0.25
        if not tree.add(segs, optional):
            continue
        texts.append("".join("/" + ("?" if optional and j == n - 1 else "") + t for j, (t, _) in enumerate(segs)))
    return texts


CURATED_C01 = [
    ["/{m: **}", "/{x}", "/{r: /a+/}", "/a"],
    ["/{m: **}/c", "/{x}/c", "/{r: /a+/}/c", "/a/c"],
    ["/b", "/{y0}/{y1}", "/{x0}/{x1}"],
    ["/{x}/a", "/{y}/b", "/{z}/{w}"],
    ["/a/b", "/{x}/c", "/{m: **}"],
    ["/{m: **}/a"],
    ["/{m: **}/a/{y}", "/{x}/a"],
    ["/{m: **}", "/{x}/b"],
    ["/{m: **, capture: 2}", "/{x}/{y}/{z}"],
    ["/{m: **, capture: 2}/e", "/{x}"],
    ["/{m: **, capture: 1}/e/{n: **}"],
    ["/o/?{y}", "/{x}"],
    ["/a/?b", "/{x}", "/a/{m: **}"],
    ["/{p: /a|ab/}{q: /b*/}", "/{x}"],
    ["/v{x}", "/{y}", "/v{z}/b"],
    ["/{**}"],
    ["/s/{**}", "/s/{x}", "/s/{d: /[0-9]+/}"],
    ["/a/", "/a", "/{x}/"],
    ["/", "/{x}"],
    ["/{x}/{m: **}", "/a/{y}", "/a/b/c"],
    ["/{d: /[0-9]+/}/{r: /a+/}", "/{d2: /[0-9]+/}/a", "/1/{z}"],
    ["/{r: /a+/}", "/{s: /a*b?/}", "/{t: /[ab]{2}/}"],
    ["/?b", "/{x}"], ["/?{y}", "/a/{z}"], ["/?{m: **}"],
    ["/{m: **, capture: 1}/e", "/{x}/{y}/{z}", "/{n: **}"], ["/{m: **, capture: 1}/{y}", "/{n: **}"],
    # many siblings under one node (>12: any re-ordering of the sibling list that is not stable shows here)
    (["/{d: /[0-9]+/}", "/{w: /[a-z0-9]+/}"] + ["/s%x" % i for i in range(12)], "/", 3),
    (["/s%x" % i for i in range(6)] + ["/{d: /[0-9]+/}"] + ["/s%x" % i for i in range(6, 12)] + ["/{w: /[a-z0-9]+/}", "/sc", "/{x}", "/{m: **}"], "/", 3),
    (["/{x}/r", "/{y}/r"] + ["/s%x/r" % i for i in range(12)], "/", 4),
    (["/{d: /[0-9]+/}/r"] + ["/s%x/r" % i for i in range(7)] + ["/{w: /[a-z0-9]+/}/r"] + ["/s%x/r" % i for i in range(7, 13)] + ["/{y}/r"], "/", 4),
]

CURATED_C02 = [
    ["/{a: /x|y/}"],
    ["/{a: /x+/}.{b}"],
    ["/{a: /[0-9]+/}-{b: /[a-z]+/}"],
    ["/v{x}", "/{y}"],
    ["/{x}/{m: **}/e", "/{x2}/{n: **}"],
    ["/{m: **, capture: 2}/{y}"],
    ["/a/?{o}", "/{x}/{y}"],
    ["/{p: /a|ab/}{q: /b*/}"],
    ["/{a: /.+/}/{b: /[b-z]/}"],
    ["/{a: /(x)+y/}-{b: /z+/}"], ["/{a: /x(y|z)*/}{b: /w/}", "/{c}"], ["/{a: /(x(y)?)+/}.{b: /[a-z]/}"],
    (["/t/{a: /v(x)+/}-{b: /z+/}/e"], "/t/v", 6),
    # one regex bind next to a literal that contains a regex metacharacter
    ["/{d: /[0-9]+/}.j"], ["/v.{d: /[0-9]+/}"], ["/a+{d: /[0-9]+/}(b", "/{x}"], ["/$v{d: /[a-c]*/}"],
]

# route sets exhibiting defects recorded in DESIGN.md §5 (fixed or listed as known findings)
DEFECT_SETS_C02 = [
    (["/l/{a: /(x(y))/}-{b: /z+/}"], "/l/"),         # D2
    (["/t/{a: /(x(y))/}-{b: /z+/}/e"], "/t/xy-", 3),  # D3
    (["/{a: /(x(y))/}{b: /z+/}", "/{c}"], ""),
    ["/v1+{a}"], ["/a(b){a}"], ["/a${a}"], ["/a.b{x}"],  # D4
]


C01_SERVE = [
    # routes registered in a non-canonical spelling (blanks after ':' and ','): `route` is the canonical text
    ["R GET /u/{id:/[0-9]+/}", "R GET /u/{name:   **,capture:  2}/x", "R GET /{a:/x/,b:  /y+/}"],
    ["R GET /{**}", "R GET /{a}/{b}", "R GET /a/b"],
    ["R GET /u/{id}/@", "R GET /u/{m: **}", "R GET /{r: /[a-z]+/}"],
    ["R GET /{m: **, capture: 2}/e", "R GET /o/?{p}", "R GET /"],
]


C01_AUTOHEAD = [
    ["A 1", "R HEAD /{name}", "RG - /s", "RG - /{x}/{y}"],
    ["RG - /u/{id}", "A 1", "RG - /v", "R HEAD /w"],
    ["A 1", "RG - /u/{id}", "A 0", "RG - /w/{x}", "R POST /u/{z}"],
]


def routing_jobs(pid, tier, seed):
    rng = random.Random(seed * 7919 + (1 if pid == "C01" else 2))
    jobs = []
    n_q = 5
    n_t = 7

    def add(routes, n, tag, prefix=""):
        jobs.append({"pkg_short": "route", "setup": "VH_Route_setup", "body": "VH_Route_match",
                     "params": {"routes": "\n".join(routes), "n": n, "prefix": prefix, "family": tag},
                     "max_paths": 300000})

    n = n_q if tier == "quick" else n_t
    curated = CURATED_C01 if pid != "C02" else CURATED_C02 + DEFECT_SETS_C02
    if pid == "C07":
        curated = CURATED_C01[:8] + CURATED_C02[:4]
    for rs in curated:
        if isinstance(rs, tuple):
            add(rs[0], rs[2] if len(rs) > 2 else n, "curated", rs[1])
        else:
            add(rs, n, "curated")
    menu = SEG_MENU
    ndraw = {"quick": 20, "thorough": 50}[tier]
    drawn = 0
    guard = 0
    while drawn < ndraw and guard < 10000:
        guard += 1
        rs = random_route_set(rng, menu)
        if not rs:
            continue
        add(rs, n - 1, "seeded")
        drawn += 1
    if pid in ("C01", "C02"):
        # the same decision at ServeHTTP level: routing is by the decoded URL.Path whatever the client's spelling (URL.RawPath)
        for prog in C01_SERVE:
            jobs.append(router_job(prog, 4 if tier == "quick" else 6, method="GET", raw=1, tag="serve"))
    if pid == "C02":
        # "exactly what the pattern captured" presupposes one value per name: a name repeated along a route must be refused
        for h in (["/{N0}/s/{N1}"], ["/{N0}/s/{N1}/t/{N2}"], ["/{N0}/{N1: /x+/}/t/{N2: **}"], ["/s/{N0}/t/u/{N1}"], ["/{N0: **}/s/{N1}"]):
            jobs.append({"pkg_short": "route", "body": "VH_C08_register", "params": {"history": "\n".join(h), "slots": 3, "family": "c02-unique-names"}})
    if pid == "C01":
        # GET routes doubled for HEAD by AutoHead compete with HEAD routes by the same priority rules
        for prog in C01_AUTOHEAD:
            jobs.append(router_job(prog, 3 if tier == "quick" else 5, method="?", tag="autohead"))
    return jobs


def routing_bounds(tier):
    return {"request_path": "every byte string of length 0..%d (all 256 byte values per byte)" % (5 if tier == "quick" else 7),
            "route_sets": "curated sets (one per priority clause) + seeded draws of 1-4 routes x 1-3 segments over an 11-item segment menu",
            "unwinding": "3e6 SSA instructions per path, call depth 400; exceeding either is reported inconclusive",
            "outside": "longer paths, route sets outside the family, user regexes outside the menu"}


ROUTING_ASSUME = [
    "the tree is built by running the real AddRoute/newTree/newLeaf/regexp.Compile in the interpreter on the AST of the harness route parser; that parser is compared with the real participle parser natively for every route string of the run",
    "stdlib regexp, regexp/syntax, strings, net/url are executed from their own SSA; utf8.DecodeRuneInString, strings.Index/IndexByte/Count and sync.Pool are symbolic-aware intrinsics",
    "oracle: priority keys (style rank, first-registration order, fewest captures, final match-all last) and admission terms written from the property statement; regex membership is a second, independent rune-level DP over regexp/syntax trees",
    "a bare {name} inside a regex-style segment admits what Go's `.+` admits (no newline)",
    "C02 relation for several binds in one segment is asserted on %-free segments; decoding is asserted on placeholder and match-all values",
]

for _pid in ("C01", "C02"):
    SPECS[_pid] = Spec(
        _pid, ROUTE_FILES + ["route/oracle_api.go", "route/c08.go", "flamego/router.go"], (lambda p: (lambda tier, seed: routing_jobs(p, tier, seed)))(_pid),
        assumptions=ROUTING_ASSUME, bounds=routing_bounds,
        rule="one job per route set; within a job every request path up to the bound is covered by the solver: each explored "
             "path of the real Tree.Match is one equivalence class of request paths; a class is non-trivial when the "
             "request reaches at least one tree node comparison",
    )


# --------------------------------------------------------------------------- router level (C07, C09, C10)
ROUTER_FILES = ["route/parse.go", "route/oracle.go", "route/oracle_api.go", "flamego/router.go"]


def router_job(prog, n, method="GET", prefix="", hv=2, diff=0, twice=0, maporders=0, tag="", prior=0, raw=0):
    return {"pkg_short": "flamego", "setup": "VH_Router_setup", "body": "VH_Router_serve",
            "params": {"prog": "\n".join(prog), "n": n, "method": method, "prefix": prefix, "hv": hv, "diff": diff,
                       "twice": twice, "maporders": maporders, "family": tag, "prior": prior, "raw": raw}, "max_paths": 300000}


C07_PROGS = [
    (["R GET /a/b", "R POST /{x}", "R * /s/{m: **}", "R GET /a/{y}"], "?"),
    (["NF", "R GET /{m: **, capture: 2}/e", "R GET,POST /o/?{p}", "R DELETE /"], "?"),
    (["R GET /{m: **}", "R GET /{x}/{y: /[0-9]+/}", "R HEAD /{**}"], "?"),
    (["R GET /{a: /x|y/}-{b}", "R GET /v{c}/{n: **, capture: 1}/z"], "GET"),
    (["R GET /{m: **, capture: 1}", "R GET /{m: **, capture: 3}/a/{n: **, capture: 2}"], "GET"),
    (["R PUT /"], "?"),
    (["R GET /a", "H 0 X-K=v", "R GET /{x}", "R POST /a"], "?"),
    # routes declared in nested groups: the chain run is the chosen route's own (its groups' handlers, then its handler)
    (["G /ad 2", "G /v1", "R GET /us", "R GET /se", "R POST /us", "E", "R GET /{x}", "G /v2", "R GET /us", "E", "E", "R GET /ad/v1/{y}"], "?", "/ad/v", 4),
    (["G /a", "G /b", "G /c", "R GET /x", "R GET /y", "E", "G /d 3", "R GET /x", "R GET /y", "R GET /z", "E", "E", "E"], "GET", "/a/b/", 4),
    (["G /g", "R GET /a", "R GET /b", "R GET /c", "R GET /d", "E", "G /h", "R * /a", "E"], "GET", "/", 3),
]

C07_PRIOR = [
    (["R GET /a", "H 0 X-K=v", "R GET /{x}", "R POST /a"], "/", 2),
    (["R GET /r/{id: /[0-9]+/}", "H 0 X-K=v", "R GET /r/{m: **}", "R * /r/0"], "/r/", 2),
    (["R GET,POST /o/?{p}", "H 0 X-K=v", "R GET /o/{q}", "NF"], "/o", 2),
]

C07_TREES = [
    ["/{m: **, capture: 1}"], ["/{m: **, capture: 2}/e", "/{x}"], ["/{m: **, capture: 3}/a/{n: **, capture: 2}"],
    ["/{**}"], ["/{m: **}/a/{y}", "/{x}/a"], ["/a/?{m: **, capture: 2}"], ["/{x}/?{y}"],
]


def c07_jobs(tier, seed):
    n = 5 if tier == "quick" else 7
    jobs = []
    for rs in C07_TREES:
        jobs.append({"pkg_short": "route", "setup": "VH_Route_setup", "body": "VH_Route_match",
                     "params": {"routes": "\n".join(rs), "n": n, "prefix": "", "family": "c07-tree"}, "max_paths": 300000})
    for prog, method, *rest in C07_PROGS:
        if rest:
            jobs.append(router_job(prog, rest[1] if tier == "quick" else rest[1] + 2, method=method, prefix=rest[0], twice=1, tag="c07-groups"))
        else:
            jobs.append(router_job(prog, n - 1 if method == "?" else n, method=method, twice=1, tag="c07-router"))
    # history independence: an earlier request for the same path with other headers / another method
    for prog, pfx, pn in C07_PRIOR:
        jobs.append(router_job(prog, pn if tier == "quick" else pn + 2, method="?", prefix=pfx, hv=1, twice=1, prior=1, tag="c07-prior"))
    # determinism under every explored map-iteration order (small bound: orders multiply paths)
    jobs.append(router_job(C07_PROGS[3][0], 4 if tier == "quick" else 6, method="GET", twice=1, maporders=1, tag="c07-maporder"))
    if tier == "thorough":
        rng = random.Random(seed * 31 + 7)
        for _ in range(40):
            rs = random_route_set(rng, SEG_MENU)
            if rs:
                jobs.append(router_job(["R GET " + t for t in rs], 5, method="?", twice=1, tag="c07-seeded"))
    return jobs


SPECS["C07"] = Spec(
    "C07", ROUTE_FILES + ["route/oracle_api.go", "flamego/router.go"], c07_jobs,
    assumptions=ROUTING_ASSUME + [
        "the router is the real newRouter/addRoute/ServeHTTP; route.NewParser/Parse are redirected to the harness parser inside the interpreter (natively the real parser runs)",
        "the context the router creates is an observer that records which chain was started with which parameters; what happens inside a chain is C03's subject",
        "every Go run-time panic (index/slice bounds, nil dereference, failed type assertion, nil-map write, explicit panic) raised while serving is an uncaught-panic violation",
        "requests start at router.ServeHTTP with an arbitrary URL.Path and Method, which is more than net/http can deliver",
    ],
    bounds=lambda tier: {"request_path": "all byte strings of length 0..%d" % (5 if tier == "quick" else 7),
                         "method": "all byte strings of length 0..7 (symbolic) or a fixed known method",
                         "headers": "history jobs: header absent / present with any 0..1-byte value, in an earlier request and in the one observed (matching itself is C09's subject)",
                         "map_order": "one job explores every iteration order of maps with <=3 entries (two orders above)",
                         "outside": "longer paths; panics inside user handlers (C15); net/http's own request parsing"},
    rule="one job per route set / registration program; each explored path is one equivalence class of (method, path)",
)

C09_PROGS = [
    (["R GET /s", "H 0 X-K=v"], "GET", 3),
    (["R GET /s", "R GET /{x}", "H 0 X-K=^v$"], "GET", 3),
    (["R GET /o/?p", "H 0 X-K=v"], "GET", 4),            # D5
    (["R GET /o/?{p}", "R GET /{x}", "H 0 X-K=v"], "GET", 4),
    (["R GET,POST /rs", "H 0 X-K=v"], "?", 3),            # D13
    (["R * /any", "H 0 X-K=a|b"], "?", 4),
    (["R GET /a", "H 0 X-K=v", "H 0 Y-K="], "GET", 2),   # replaced
    (["R GET /a/{m: **}", "R GET /a/{x}", "R GET /a/b", "H 2 X-K=v", "H 1 Y-K=w"], "GET", 4),
    (["R GET /{r: /a+/}", "R GET /{x}", "H 0 X-K=v", "H 0 "], "GET", 3),
    (["R GET /{x}/{m: **}", "R GET /a/{y}/c", "H 1 X-K=v"], "GET", 5),
    (["R GET /?p", "R POST /", "H 0 X-K=v"], "?", 2),
    (["RS * /w", "H 0 X-K=v"], "?", 2),
    (["RS get,post /lc", "R PUT /lc", "H 0 X-K=v"], "?", 3),
    (["RS Get /m/{x}", "RS POST,get /m/s", "H 1 X-K=v"], "?", 4),
    # an optional route whose parent subtree was created by an earlier route: the short form is constrained too
    (["R GET /o/n", "R GET /o/?{p}", "H 1 X-K=v"], "GET", 4), (["R GET /o/n/m", "R GET /o/?p", "H 1 X-K=v", "R GET /{x}"], "GET", 4),
    # a constrained route and an unconstrained one with the same literal at the same place (optional forms)
    (["R GET /?u", "H 0 X-K=v", "R GET /u"], "GET", 3), (["R GET /?ap", "H 0 X-K=v", "R GET /ap/?v"], "GET", 5),
    (["R GET /u", "H 0 X-K=v", "R GET /?u"], "GET", 3),
    # a constraint on a match-all route: it must gate the route however many segments the bind takes
    (["R GET /a/{m: **}", "H 0 X-K=v", "R GET /a/{x}/{y}"], "GET", 4, "/a/"),
    (["R GET /{m: **}", "H 0 X-K=v"], "GET", 4),
    (["R GET /{m: **, capture: 2}", "H 0 X-K=v", "R GET /{x}/{y}/{z}"], "GET", 5),
    (["R GET /b/?{m: **}", "H 0 X-K=v", "NF"], "GET", 4, "/b"),
    (["R GET /{m: **}/e", "H 0 X-K=v", "R GET /{x}/{y}/e"], "GET", 5),
    # histories of Headers() calls: textually identical constraints on two routes, one of them constrained again;
    # a route constrained twice, then another route given the first set
    (["R GET /a", "R GET /{x}", "H 0 X-K=v", "H 1 X-K=v", "H 0 X-J=w"], "GET", 2),
    (["R GET /a", "R GET /{x}", "H 0 X-K=v", "H 1 X-K=v", "H 1 X-J=w"], "GET", 2),
    (["R GET /a", "H 0 X-K=v", "H 0 X-J=w", "R GET /b", "H 1 X-K=v", "R GET /{x}"], "GET", 2),
    (["R GET /a/?b", "R POST /a/?b", "H 0 X-K=v", "H 1 X-K=v", "H 1 "], "?", 4),
]


def random_program(rng, menu, headers=True, max_routes=3):
    """A registration program over a random valid route set: random method sets per route, Headers() calls, NotFound."""
    rs = random_route_set(rng, menu, max_routes=max_routes)
    if not rs:
        return None
    prog = ["R %s %s" % (rng.choice(["GET", "GET", "POST", "*", "GET,POST"]), t) for t in rs]
    if headers:
        for _ in range(rng.randint(1, 2)):
            prog.append("H %d %s" % (rng.randrange(len(rs)), rng.choice(["X-K=v", "X-K=^v$", "X-K=a|b", "Y-K=w", "X-K=v;Y-K=w", ""])))
    if rng.random() < 0.3:
        prog.insert(rng.randrange(len(prog) + 1) if not headers else 0, "NF")
    return prog


def c09_jobs(tier, seed):
    jobs = []
    rng = random.Random(seed * 577 + 9)
    drawn = 0
    while drawn < (8 if tier == "quick" else 40):
        prog = random_program(rng, SEG_MENU)
        if prog:
            drawn += 1
            jobs.append(router_job(prog, 3 if tier == "quick" else 5, method="?" if drawn % 2 else "GET", hv=1 if tier == "quick" else 2, tag="c09-seeded"))
    for prog, method, n, *rest in C09_PROGS:
        jobs.append(router_job(prog, n + (0 if tier == "quick" else 2), method=method, hv=2 if tier == "quick" else 3, diff=0,
                               tag="c09", prefix=rest[0] if rest else ""))
    return jobs


SPECS["C09"] = Spec(
    "C09", ROUTER_FILES, c09_jobs,
    assumptions=ROUTING_ASSUME + [
        "header values are symbolic strings (presence symbolic); http.Header.Get is an intrinsic using the canonical MIME key of the concrete header name",
        "header expressions come from a menu; the real regexp machine runs them on symbolic values; the oracle decides them with its own substring-search DP",
        "eligibility oracle: C01's priority oracle with every form (short and long, every method) of a route gated by the last constraint set given to it",
    ],
    bounds=lambda tier: {"request_path": "0..(2-5)+%d bytes per program" % (0 if tier == "quick" else 2),
                         "header_values": "0..%d bytes, presence symbolic" % (2 if tier == "quick" else 3),
                         "programs": len(C09_PROGS)},
    rule="one job per registration program with Headers() calls",
)

C10_PROGS = [
    (["R GET /q/r", "R GET /q/{x}"], "GET", 5),
    (["R GET /q/?r"], "GET", 5),                          # D6
    (["R GET /q/r", "H 0 X-K=v"], "GET", 4),
    (["R GET /", "R GET /a/", "R GET /a"], "GET", 4),
    (["R GET /a/b", "R POST /a/b", "R GET /a/{m: **}"], "?", 4),
    (["R GET /q/{x}", "R GET /q/r/?s", "H 1 X-K=v"], "GET", 6),
    (["R * /z", "R GET /{x}", "H 0 X-K=v", "H 0 "], "?", 2),
    (["R GET /?r", "R GET /{x}/{y}"], "GET", 4),
    (["R GET /q/?r", "R GET /q/r"], "GET", 5),            # D14: a static route shadowed by an earlier optional-static one
    (["R GET /q/r", "R GET /q/?r"], "GET", 5),
    (["R GET /q/?r", "R GET /q/r", "H 0 X-K=v"], "GET", 5),
    (["R GET /a/?", "R GET /a/"], "GET", 4),
    # a constrained static route with lower-priority candidates behind it
    (["R GET /u", "H 0 X-K=v", "R GET /{n}"], "GET", 3), (["R GET /u", "H 0 X-K=v", "R GET /{**}"], "GET", 3), (["R GET /u", "H 0 X-K=v", "R GET /?u"], "GET", 3),
    # Headers() with no pairs on routes that must stay off the fast paths
    (["R GET /?u", "H 0 "], "GET", 3), (["R GET /a/?b", "H 0 X-K=v", "H 0 "], "GET", 5), (["R GET /q", "H 0 X-K=v", "H 0 ", "R GET /{x}"], "GET", 3),
    # several methods registered at once where only some of them are shadowed by an earlier optional route
    (["R POST /?u", "R * /u"], "?", 2),
    (["R POST /q/?r", "R GET,POST,PUT /q/r"], "?", 4),
    (["R * /q/?r", "R DELETE /q/r", "R GET /{x}"], "?", 4),
    # Headers() called on a static route after its optional twin was registered (and the other way round)
    (["R GET /u", "R GET /?u", "H 0 X-K=v"], "GET", 3), (["R GET /q/r", "R GET /q/?r", "H 0 X-K=v", "R GET /q/{x}"], "GET", 5),
    (["R GET /u", "R GET /?u", "H 1 X-K=v"], "GET", 3), (["R GET /u", "R POST /?u", "H 0 X-K=v"], "?", 2),
]


def c10_jobs(tier, seed):
    jobs = []
    for prog, method, n in C10_PROGS:
        jobs.append(router_job(prog, n + (0 if tier == "quick" else 2), method=method, hv=1, diff=1, twice=1, tag="c10"))
    # the client's spelling of the path (URL.RawPath) must not matter to either side
    for prog in (["R GET /u", "R GET /{n}"], ["R GET /q/r", "R GET /q/{x}", "R GET /{m: **}"], ["R GET /a", "H 0 X-K=v", "H 0 ", "R GET /{x}"]):
        jobs.append(router_job(prog, 3 if tier == "quick" else 4, method="GET", hv=1, diff=1, twice=1, raw=1, tag="c10-rawpath"))
    rng = random.Random(seed * 131 + 3)
    menu = [("a", "s"), ("b", "s"), ("q", "s"), ("a", "s"), ("{x%d}", "p"), ("{m%d: **}", "m"), ("", "s")]
    drawn = 0
    while drawn < (10 if tier == "quick" else 60):
        prog = random_program(rng, menu, headers=drawn % 3 == 0, max_routes=4)
        if prog:
            drawn += 1
            jobs.append(router_job(prog, 4 if tier == "quick" else 6, method="?" if drawn % 2 else "GET", hv=1, diff=1, twice=1, tag="c10-seeded"))
    return jobs


SPECS["C10"] = Spec(
    "C10", ROUTER_FILES, c10_jobs,
    assumptions=ROUTING_ASSUME + [
        "differential in one run: router.ServeHTTP (with the static shortcut) vs routeTrees[method].Match on the same symbolic request",
        "requests do not mutate the router (C05 monitors that), so histories reduce to: after every registration/Headers() prefix, all requests; programs fix the history",
    ],
    bounds=lambda tier: {"request_path": "0..(2-6)+%d bytes per program" % (0 if tier == "quick" else 2), "programs": len(C10_PROGS)},
    rule="one job per registration history; each explored path is one equivalence class of requests",
)


# --------------------------------------------------------------------------- C03
def c03_jobs(tier, seed):
    # (middleware, group handlers, route handlers, action, cancel, kinds, deep)
    if tier == "quick":
        shapes = [(1, 0, 1, 1, 0, "010", 3), (1, 1, 1, 1, 0, "0101", 2), (1, 1, 1, 1, 0, "1010", 2), (0, 0, 2, 0, 2, "01", 2),
                  (2, 0, 1, 0, 2, "100", 1), (0, 3, 1, 0, 0, "0000", 1)]
    else:
        shapes = []
        for kinds in ("000", "111", "010", "101"):
            shapes.append((1, 0, 1, 1, 0, kinds, 3))
            shapes.append((1, 0, 1, 1, 1, kinds, 2))
        for kinds in ("0000", "1111", "0101", "1010", "0011", "1100"):
            shapes.append((1, 1, 1, 1, 0, kinds, 3))
            shapes.append((1, 1, 1, 1, 1, kinds, 1))
        for kinds in ("00000", "01010", "10101"):
            shapes.append((1, 1, 2, 1, 0, kinds, 2))
        shapes.append((2, 1, 2, 1, 0, "010101", 1))
        # context replacement (cancel=2) on small chains only: every handler has one more choice
        shapes += [(0, 0, 2, 0, 2, "01", 2), (2, 0, 1, 0, 2, "100", 1), (1, 0, 1, 1, 2, "010", 1), (1, 1, 1, 0, 2, "001", 1)]
    jobs = []
    for mw, grp, rt, action, cancel, kinds, deep in shapes:
        jobs.append({"pkg_short": "flamego", "body": "VH_C03_chain", "max_paths": 900000,
                     "params": {"mw": mw, "grp": grp, "rt": rt, "action": action, "cancel": cancel, "kinds": kinds, "deep": deep}})
    # HEAD requests (GET routes with AutoHead): a body write sends the status although no byte is forwarded
    for mw, grp, rt, action, cancel, kinds, deep in (shapes[:2] if tier == "quick" else shapes[:8]):
        jobs.append({"pkg_short": "flamego", "body": "VH_C03_chain", "max_paths": 900000,
                     "params": {"mw": mw, "grp": grp, "rt": rt, "action": action, "cancel": cancel, "kinds": kinds, "deep": min(deep, 2), "method": "HEAD"}})
    # handlers that stream their body with io.Copy from a plain reader (the underlying writer is an io.ReaderFrom)
    # (the same shape in both tiers: the thorough tier's larger shapes were not validated with copy=1)
    for mw, grp, rt, action, cancel, kinds, deep in [(1, 0, 1, 1, 0, "010", 2)]:
        jobs.append({"pkg_short": "flamego", "body": "VH_C03_chain", "max_paths": 900000,
                     "params": {"mw": mw, "grp": grp, "rt": rt, "action": action, "cancel": cancel, "kinds": kinds, "deep": deep, "copy": 1}})
    jobs.append({"pkg_short": "flamego", "body": "VH_C03_step", "params": {"n": 4 if tier == "quick" else 8}, "max_paths": 200000})
    return jobs


SPECS["C03"] = Spec(
    "C03", ["flamego/c13.go", "flamego/c03.go", "route/parse.go"], c03_jobs,
    assumptions=[
        "a real Flame instance (NewWithLogger, Use, Group, Get, Action, ServeHTTP, createContext, newContext, run, Next, inject, default return handler, responseWriter) is executed; only the logger constructor is stubbed",
        "handlers are func(Context) (wrapped to ContextInvoker) or func(Context) string (reflective call through the reflect shim, rendered by the real default ReturnHandler)",
        "each handler's behaviour word (writes before Next, 0-2 Next calls, writes after, returned body empty or not, cancels the request context) is a symbolic choice drawn when the handler first runs",
        "the request context is a harness context.Context whose Done channel the harness closes",
        "reference model written from the statement: start not-yet-started handlers in order, each at most once; stop on cancel; after a handler returns continue only if nothing was written",
        "handlers do not spawn goroutines or keep the Context; panics are C15's subject",
    ],
    bounds=lambda tier: {"chain_shapes (middleware, group handlers, route handlers, action, cancellation)": "see jobs", "handlers_total": "<=4 quick, <=6 thorough",
                         "next_calls_per_handler": "0..2"},
    rule="every combination of behaviour words of the handlers that actually run; a chain is non-trivial when at least two handlers start",
)


# --------------------------------------------------------------------------- C14
C14_SHAPES = ["string", "bytes", "error", "int-string", "teapot", "int-bytes", "int-error", "string-error", "bytes-error", "ptr-string", "int-ptr-string", "named-bytes", "custom", "custom-zero", "late-custom"]


def c14_jobs(tier, seed):
    jobs = []
    for sh in C14_SHAPES:
        for pos in ((0,) if tier == "quick" else (0, 2)):
            jobs.append({"pkg_short": "flamego", "body": "VH_C14_return",
                         "params": {"shape": sh, "len": 2 if tier == "quick" else 4, "pos": pos}})
    return jobs


SPECS["C14"] = Spec(
    "C14", ["flamego/c13.go", "flamego/c14.go", "route/parse.go"], c14_jobs,
    assumptions=[
        "real Flame/context/inject/defaultReturnHandler/teapotInvoker/responseWriter executed; reflect.Value is the interpreter's shim over go/types (Call, Kind, Int, String, Bytes, IsZero, Interface, Elem)",
        "returned strings/bytes/error texts are symbolic (all byte values), status symbolic in [100,999], nil-ness symbolic, two concrete error types",
        "clauses the statement leaves open are not asserted: (int, \"\") asserts the status and no body bytes only",
    ],
    bounds=lambda tier: {"body_len": "0..%d bytes" % (2 if tier == "quick" else 4), "status": "[100,999]", "shapes": C14_SHAPES,
                         "position": "after 0 (quick) / 0 and 2 (thorough) pass-through middleware"},
    rule="one job per return shape; every value of that shape within the bounds",
)


# --------------------------------------------------------------------------- C15
def c15_jobs(tier, seed):
    combos = [(0, 0), (1, 1), (2, 2)] if tier == "quick" else [(b, d) for b in (0, 1, 2) for d in (0, 1, 2, 3)]
    return [{"pkg_short": "flamego", "body": "VH_C15_recovery", "params": {"before": b, "depth": d}} for b, d in combos]


SPECS["C15"] = Spec(
    "C15", ["flamego/c13.go", "flamego/c03.go", "flamego/c15.go", "route/parse.go"], c15_jobs,
    assumptions=[
        "real Flame, Recovery() closure incl. its deferred function, LoggerInvoker, run/Next, inject, responseWriter; the interpreter implements defer/panic/recover and raises Go run-time panics itself (nil-map write, index out of range)",
        "stubs: logger (no-op), runtime.Caller (a stub stack of six frames in three files), os.ReadFile (knows those three files), fmt.Sprintf (subset incl. %[n]s), http.StatusText (host)",
        "panic kinds: string (also empty, also ending in a line break), error value (also with an empty message), two run-time errors, struct, failed dependency resolution; http.ErrAbortHandler is not special-cased by Recovery and is represented by an ordinary error value (net/http's package init is not run inside the interpreter)",
        "panic(nil), panics in goroutines and in middleware placed before Recovery are outside the claim",
    ],
    bounds=lambda tier: {"middleware_before_recovery": "0..2", "pass_through_depth": "0..2 quick / 0..3 thorough", "earlier_status": "[100,999] symbolic", "env": "dev/prod/test"},
    rule="every combination of panic kind, phase, earlier status, environment and nesting style; non-trivial when the panic crosses at least one frame",
)


# --------------------------------------------------------------------------- C04
C04_SIGS = ["", "0", "1", "2", "3", "4", "5", "6", "0,5", "5,1", "5,6", "2,3", "6,2", "4,4"]


def c04_jobs(tier, seed):
    jobs = []
    impl_sets = {"5": ["7,9", "6,8"], "6": ["8"], "0,5": ["7,8"], "5,1": ["9"], "5,6": ["8"], "6,2": ["8"]}
    for sig in C04_SIGS:
        for scopes in ((2,) if tier == "quick" else (1, 2, 3)):
            for impls in impl_sets.get(sig, [""]):
                if impls and scopes == 3 and tier != "thorough":
                    continue
                for fast in (0, 1):
                    if fast == 1 and sig not in ("0,5", "5", "2,3"):
                        continue
                    jobs.append({"pkg_short": "inject", "body": "VH_C04_invoke", "max_paths": 400000,
                                 "params": {"sig": sig, "scopes": scopes, "fast": fast, "impls": impls,
                                            "maporders": 1 if impls else 0, "rereg": 1 if (impls and fast == 0) or sig in ("0", "2,3") else 0}})
    jobs.append({"pkg_short": "inject", "body": "VH_C04_apply", "params": {"scopes": 2, "impls": "7"}, "max_paths": 400000})
    jobs.append({"pkg_short": "flamego", "body": "VH_C04_request", "params": {}, "max_paths": 400000})
    jobs.append({"pkg_short": "inject", "body": "VH_C04_exact", "params": {}, "max_paths": 400000})
    jobs.append({"pkg_short": "flamego", "body": "VH_C04_results", "params": {}, "max_paths": 400000})
    return jobs


SPECS["C04"] = Spec(
    "C04", ["inject/c04.go", "flamego/c13.go", "flamego/c04f.go", "route/parse.go"], c04_jobs,
    assumptions=[
        "real inject.New/Map/MapTo/Set/SetParent/Value/Invoke/fastInvoke/callInvoke/Apply/InterfaceOf/IsFastInvoker executed; reflect is the interpreter's shim answered from go/types (TypeOf, ValueOf, Kind, NumIn, In, Implements, Call, Field, Tag, CanSet, Set)",
        "type universe declared in the harness: struct, pointer, named string, named int, chan int (Set), interfaces I and J (J's method set includes I's), three implementors (value and pointer receivers)",
        "registrations: per scope and per universe type relevant to the asked signature, presence symbolic, optionally re-registered; irrelevant registrations present in every scope",
        "map iteration order inside Value() is explored (all orders up to 3 entries, two orders above) for interface parameters; the oracle accepts any implementor registered in the nearest scope that has one",
        "fmt.Errorf is the interpreter's formatter (the error text's type name is printed with go/types' TypeString)",
    ],
    bounds=lambda tier: {"scopes": "2 (quick) / 1..3 (thorough)", "arity": "0..2", "signatures": C04_SIGS},
    rule="one job per (signature, scope count, plain/fast); all registration assignments relevant to the signature",
)


# --------------------------------------------------------------------------- C12
C12_ROUTES = [
    "/webapi/users", "/u/{name}", "/u/{id: /[0-9]+/}", "/u/{name}/?events", "/a_{id: /[0-9]+/}_{page: /[\\\\w]+/}.{ext: /diff|patch/}",
    "/{paths: **}/files", "/g/{name: **, capture: 2}", "/{**}", "/p/{y: /[0-9]{4}/}-{m}-{d}.html", "/x/{a}/{b}/{c}",
    "/u/?{opt}", "/{a}{b}", "/s/{x: /a+/, y: /b+/}",
    "/webapi/?users", "/?home", "/a/b/?c", "/a/", "/",
]
C12_ROUNDTRIP = [
    ["/u/{name}", "/u/{name2}/?ev"], ["/{a: /[0-9]+/}-{b}", "/{m: **}"], ["/{m: **}/e/{n: **, capture: 2}"], ["/a/?{o}", "/{x}/{y}"],
    ["/v{x}.{e: /js|go/}"], ["/{**}"], ["/s/{x: /a+/, y: /b+/}"],
]


def c12_jobs(tier, seed):
    jobs = []
    vlen = 2 if tier == "quick" else 3
    for r in C12_ROUTES:
        jobs.append({"pkg_short": "route", "body": "VH_C12_urlpath", "params": {"route": r, "vlen": vlen, "maporders": 1}, "max_paths": 300000})
    n = 5 if tier == "quick" else 7
    for rs in C12_ROUNDTRIP:
        jobs.append({"pkg_short": "route", "setup": "VH_Route_setup", "body": "VH_Route_match",
                     "params": {"routes": "\n".join(rs), "n": n, "prefix": "", "roundtrip": 1, "family": "c12-roundtrip"}, "max_paths": 300000})
    jobs.append({"pkg_short": "flamego", "body": "VH_C12_named", "params": {"vlen": vlen}})
    jobs.append({"pkg_short": "flamego", "body": "VH_C12_context", "params": {"vlen": vlen}})
    return jobs


SPECS["C12"] = Spec(
    "C12", ROUTE_FILES + ["route/c12.go", "flamego/router.go", "route/oracle_api.go", "flamego/c12.go"], c12_jobs,
    assumptions=ROUTING_ASSUME + [
        "strings.NewReplacer/Replace (generic replacer: trie, sync.Once) is executed from the standard library's own SSA on symbolic values; no contract stub was needed",
        "supplied values are symbolic byte strings (so braces, other bind names, slashes and the empty string are inside), presence of every pair symbolic, one unknown name, withOptional symbolic, map iteration orders explored",
        "the inverse clause is asserted on the routing runs for %-free request paths",
    ],
    bounds=lambda tier: {"value_len": "0..%d bytes" % (2 if tier == "quick" else 3), "routes": C12_ROUTES, "roundtrip_sets": C12_ROUNDTRIP,
                         "roundtrip_path_len": 5 if tier == "quick" else 7},
    rule="one job per route; every assignment of presence/values; plus routing round-trip jobs",
)


# --------------------------------------------------------------------------- C11
def c11_jobs(tier, seed):
    # mask: which of the 9 template statements are symbolic (the others off); lens: symbolic list lengths
    if tier == "quick":
        masks = [("111100010", 0), ("001111000", 0), ("001000101", 1), ("000000101", 1), ("100001011", 0)]
    else:
        masks = [("111111010", 0), ("111100110", 1), ("001111001", 1), ("101000111", 1), ("010110101", 0), ("111111111", 0)]
    jobs = [{"pkg_short": "flamego", "body": "VH_C11_program", "params": {"mask": m, "lens": l}, "max_paths": 3000000} for m, l in masks]
    jobs.append({"pkg_short": "flamego", "body": "VH_C11_program", "max_paths": 3000000,
                 "params": {"mask": "010000100111" if tier == "quick" else "011001100111", "lens": 0}})
    jobs.append({"pkg_short": "flamego", "body": "VH_C11_program", "max_paths": 3000000,
                 "params": {"mask": "0011000000001" if tier == "quick" else "1011010000001", "lens": 0}})
    # group prefixes that share characters with each other and with the route paths, an empty prefix, a bind in a prefix
    for g1, g2 in (("/gh", "/h"), ("/p", "/pp"), ("/g", ""), ("/{g}", "/hg")):
        jobs.append({"pkg_short": "flamego", "body": "VH_C11_program", "max_paths": 3000000,
                     "params": {"mask": "010101110" if tier == "quick" else "011111110", "lens": 0, "g1": g1, "g2": g2}})
    return jobs


SPECS["C11"] = Spec(
    "C11", ["route/parse.go", "flamego/router.go", "route/oracle.go", "route/oracle_api.go", "flamego/c12.go", "flamego/c11.go"], c11_jobs,
    assumptions=[
        "real router: Group/Route/Get/Post/Delete/Any/Routes (both spellings)/AutoHead/Combo/ComboRoute.*, validateAndWrapHandlers, addRoute, ServeHTTP; the context is an observer that runs the marker handlers it is given",
        "program template with three nesting levels; every statement guarded by a symbolic bool, handler lists of symbolic length 0..2, every caller slice created with exact or spare capacity (symbolic), AutoHead toggled at symbolic points",
        "after the whole program ran, every (method, path) of the template (plus look-alikes without their group prefix) is requested: the handler ids observed must be the flat expansion's (outer group, inner group, own) or the not-found chain",
        "same chosen route / order / parameters for arbitrary requests then follows from C01-C03, decided on flat registrations (composition is an argument, not a query)",
        "a group function that panics is outside the claim",
    ],
    bounds=lambda tier: {"nesting": 3, "statements": "13 template statements; per job a subset (mask) is symbolic, the others off", "handler_list_len": "0..2 (jobs with lens=1) else 1", "spare_capacity": "0 or 2 (symbolic)"},
    rule="every combination of statement guards, list lengths, capacity and AutoHead toggles of the template",
)


# --------------------------------------------------------------------------- C08
C08_SEGS = ["N%d", "N%d", "{N%d}", "{N%d: /x+/}", "{N%d: /[0-9]/}-{N%d: /(y)/}", "{N%d: /[a-/}", "{N%d: /*/}", "{N%d: **}",
            "{N%d: **, capture: 2}", "{**}", "", "{N%d: x}", "v{N%d}", "{N%d: /[x/}{N%d: /y]/}", "{N%d: /x)/}-{N%d: /(y/}"]


def c08_history(rng, nroutes=3, nslots=4):
    texts = []
    for _ in range(rng.randint(1, nroutes)):
        n = rng.randint(1, 3) if rng.random() < 0.8 else rng.randint(4, 5)
        opt = n - 1 if rng.random() < 0.3 else -1
        if opt >= 0 and rng.random() < 0.15:
            opt = rng.randrange(n)
        t = ""
        for j in range(n):
            seg = rng.choice(C08_SEGS)
            while "%d" in seg:
                seg = seg.replace("%d", str(rng.randrange(nslots)), 1)
            t += "/" + ("?" if j == opt else "") + seg
        texts.append(t)
    return texts


C08_CURATED = [
    ["/?N0"], ["/?"], ["/?{N0}"],                                     # D1
    ["/{N0: /[0-9]/}-{N1: /x+/}"],                                    # D8 when N0 == N1
    ["/N0/{N1}", "/N2/{N3}", "/N0/{N3}"],
    ["/{N0}/{N1}/{N2}"], ["/{N0: **}/{N1: **}", "/{N0: **}/N2/{N3: **}"],
    ["/N0/?{N1}", "/N0", "/N2"], ["/N0/{N1: **}", "/N0/?{N2: **}"], ["/N0/?{N1: **}", "/N0/{N1: **}"],
    ["/N0//N1"], ["/N0/"], ["/"], ["/N0/?N1/N2"],
    ["/{N0: **}/N1", "/{N2: **}/N1"], ["/{N0: **}/{N1: **}/N2"],
    ["/{N0: /x+/}", "/{N1: /x+/}"], ["/{N0}", "/{N1}"],
    ["/N0", "/{N1: /[0-9]/}", "/{N2}", "/?N3"], ["/?N0", "/N1"], ["/N0/N1", "/N0/{N2}", "/N0/?{N3: **}"],
    # expressions that do not compile on their own but repair each other once assembled into one pattern
    ["/{N0: /[x/}{N1: /y]/}"], ["/{N0: /[x/, N1: /y]/}"], ["/{N0: /x)/}-{N1: /(y/}"],
    ["/N0/{N1: /[x/}{N2}{N3: /y]/}", "/N0"],
    # longer routes: two match-alls before the end behind / around other dynamic segments
    ["/{N0}/{N1: **}/x/{N2: **}/y"], ["/{N0: /x+/}/{N1: **}/{N2: **}/y"], ["/{N1: **}/x/{N0}/{N2: **}/y"], ["/x/{N0}/y/{N1: **}/{N2: **}/{N3}"],
    ["/{N0}/{N1}/{N2: **}/{N3: **}"], ["/{N0}/{N1: **}/x/{N2: **}"], ["/{N0}/x/{N1}/y/{N0}"], ["/{N0}/{N1: **}/x/y/{N1}"],
    # a rejected registration must leave what was registered before untouched (three siblings, then a route refused half-way)
    ["/a/x", "/b/x", "/{N0}/x", "/c/{N1}/{N1}"], ["/a/x", "/{N0}/x", "/b/x", "/c/{N1: /x+/}/{N1}", "/d/x"],
    ["/N0/x", "/N1/y", "/{N2: **}/z", "/N3/?w/z"], ["/a", "/b", "/{N0}", "/c/{N1}/{N1}", "/{N2}/d"],
    # the short form of a root-level optional route is "/"
    ["/?{N0: /x+/}", "/"], ["/", "/?"], ["/", "/?N0"], ["/?{N0: **}", "/", "/N1"], ["/{N1: **}/N1", "/?{N2: /x+/}", "/"],
]


def c08_jobs(tier, seed):
    rng = random.Random(seed * 977 + 5)
    jobs = []
    for h in C08_CURATED:
        jobs.append({"pkg_short": "route", "body": "VH_C08_register", "params": {"history": "\n".join(h), "slots": 4, "family": "curated"}})
    for _ in range(60 if tier == "quick" else 600):
        jobs.append({"pkg_short": "route", "body": "VH_C08_register",
                     "params": {"history": "\n".join(c08_history(rng)), "slots": 4, "family": "seeded"}})
    jobs.append({"pkg_short": "flamego", "body": "VH_C08_method", "params": {"mlen": 7}, "max_paths": 300000})
    return jobs


SPECS["C08"] = Spec(
    "C08", ["route/parse.go", "route/oracle.go", "route/oracle_api.go", "route/c08.go", "flamego/router.go", "flamego/c12.go", "flamego/c08.go"], c08_jobs,
    assumptions=[
        "real AddRoute/addNextSegment/addSubtree/addLeaf/newTree/newLeaf/constructMatchStyleRegex/getParentBindSet/regexp.Compile executed on ASTs of the harness parser (validated natively against participle per route string)",
        "every identifier (static literal, bind name) of a registration history is one symbolic byte in [a-d] shared per slot, so every equality pattern among up to 4 names is decided by the solver; regex texts and shapes are concrete per job",
        "reference predicate mustReject written from the statement (plus: the short form of an optional route occupies a leaf position one level up; a match-all's identity at a leaf position includes its optional marker)",
        "segments that are none of the four documented kinds are left out of the shapes; rejection of text outside the grammar is C06's, unknown methods are decided at router level (C07 runs with symbolic methods and this property's router jobs)",
        "reachability of accepted routes by their own instances is decided by C01 (iff direction) on route sets of the same family",
    ],
    bounds=lambda tier: {"history": "<=3 routes x <=3 segments (one draw in five: 4-5 segments)", "names": "4 slots, each any of a..d", "curated_histories": len(C08_CURATED),
                         "seeded_histories": 60 if tier == "quick" else 600},
    rule="one job per history shape; all assignments of names to slots",
)


# --------------------------------------------------------------------------- C18
def c18_jobs(tier, seed):
    q = 2 if tier == "quick" else 3
    jobs = [{"pkg_short": "flamego", "body": "VH_C18_query", "params": {"vlen": q, "acc": a, "name": nm}, "max_paths": 400000}
            for a, nm in (("query", 0), ("query", 1), ("query", 2), ("trim", 3), ("unescape", 1), ("strings", 2))]
    jobs += [
        {"pkg_short": "flamego", "body": "VH_C18_typed", "params": {}},
        {"pkg_short": "flamego", "body": "VH_C18_escape", "params": {"vlen": 2 if tier == "quick" else 3}, "max_paths": 400000},
        {"pkg_short": "flamego", "body": "VH_C18_cookie", "params": {"vlen": 2 if tier == "quick" else 3, "part": "roundtrip"}, "max_paths": 400000},
        {"pkg_short": "flamego", "body": "VH_C18_cookie", "params": {"vlen": 0, "part": "stored"}, "max_paths": 400000},
    ]
    return jobs


SPECS["C18"] = Spec(
    "C18", ["flamego/c13.go", "flamego/c18.go", "route/parse.go"], c18_jobs,
    assumptions=[
        "real accessors (Param*, Query*, SetCookie, Cookie) on a context built directly; net/url ParseQuery/QueryEscape/QueryUnescape, strings.TrimSpace, url.Values.Get executed from stdlib SSA",
        "string accessors: the query value is any byte string except the five query metacharacters & ; % + = (so that \"q=\"+v parses to v); presence and default symbolic",
        "typed accessors: value drawn from a menu of hostile numerals (signs, blanks, exponents, leading zeros, base prefixes, underscores, overflow); strconv runs on the host for concrete text; the oracle is strconv itself (\"the standard parsing rules\")",
        "cookie round trip as lemmas: L1 QueryEscape's output alphabet, L2 unescape∘escape = id (both on real net/url, all byte values), L3 flamego's SetCookie/Cookie; L4 (net/http writes and reads cookie values over L1's alphabet unchanged) is ASSUMED from net/http's documented valid cookie bytes: http.Cookie.String and Request.Cookie are stubbed (net/http's package initialisers are not run in the interpreter); the native replay runs the real net/http",
        "not asserted (statement silent): QueryStrings for a present-but-empty parameter, QueryTrim of a blank-only value with default, out-of-range numbers beyond strconv's clamping",
    ],
    bounds=lambda tier: {"query_value_len": "0..%d" % (2 if tier == "quick" else 3), "cookie_value_len": "0..%d (all byte values)" % (2 if tier == "quick" else 3),
                         "escape_lemma_len": "0..%d (QueryEscape treats bytes independently)" % (2 if tier == "quick" else 3), "stored_cookie_text": "0..3 bytes over [a-z0-9%+]"},
    rule="every value within the bound x presence x default; menu texts for typed accessors",
)


# --------------------------------------------------------------------------- C16
def c16_jobs(tier, seed):
    n = 3 if tier == "quick" else 5
    jobs = []

    def add(prefix, pathprefix, method="GET", index="", etag=0, hdrs=0, nn=None):
        jobs.append({"pkg_short": "flamego", "body": "VH_C16_static", "max_paths": 400000,
                     "params": {"prefix": prefix, "pathprefix": pathprefix, "method": method, "index": index, "etag": etag,
                                "hdrs": hdrs, "n": nn if nn is not None else n}})
    add("", "")
    add("", "", method="HEAD", etag=1)
    add("", "", method="?", nn=2)
    add("p", "/p")
    add("/p", "", nn=n + 1)
    add("p/", "/p", index="i.htm", hdrs=1)
    add("/p/q", "/p/q", etag=1)
    add("/p/q", "/p", nn=n)
    if tier == "thorough":
        add("//p//", "/p", etag=1, hdrs=1)
        add("", "/a/../", nn=4)
        add("pub", "/pub/../", nn=4)
    jobs.append({"pkg_short": "flamego", "body": "VH_C16_dir", "params": {"n": 4 if tier == "quick" else 6}, "max_paths": 400000})
    jobs.append({"pkg_short": "flamego", "body": "VH_C16_default", "params": {"n": 2 if tier == "quick" else 3}, "max_paths": 400000})
    return jobs


SPECS["C16"] = Spec(
    "C16", ["flamego/c13.go", "flamego/c16.go", "route/parse.go"], c16_jobs,
    assumptions=[
        "real Static() closure, parseStaticOptions, generateETag (time formatting stubbed), LoggerInvoker, run, responseWriter; strings.Trim/TrimRight/HasPrefix/HasSuffix, path.Clean/Join from stdlib SSA",
        "opt.FileSystem is a harness http.FileSystem whose Open answers error / regular file / directory and whose Stat may fail, all symbolic; it records every name opened",
        "http.ServeContent and http.Redirect are stubs that record their arguments, send the status and (ServeContent) copy the content through Read; Range/conditional requests, content sniffing and net/http's own Location clean-up are not modelled (natively the real functions run; witnesses compare status and byte counts)",
        "containment lemma: net/http.Dir.Open executed from stdlib SSA (path.Clean, filepath.Localize, filepath.Join) with os.Open/os.Stat intercepted: the path handed to the OS is inside the directory and has no .. element; (i)-(iv) plus the lemma give 'never outside it' provided the middleware reaches the disk only through opt.FileSystem, which is asserted by intercepting os.Open/os.Stat in the Static runs (they are never called there)",
        "symlinks inside the directory and custom FileSystems that are themselves unsafe are outside the claim; Prefix \"/\" (serves nothing) is not asserted",
    ],
    bounds=lambda tier: {"url_path": "concrete lead + 0..%d arbitrary bytes" % (3 if tier == "quick" else 5), "method": "GET, HEAD or any 0..4 bytes",
                         "prefix_spellings": ["", "p", "/p", "p/", "/p/q"], "dir_lemma_name_len": 4 if tier == "quick" else 6},
    rule="one job per option set; every path/method/file-system answer within the bound",
)


# --------------------------------------------------------------------------- C17
def c17_jobs(tier, seed):
    jobs = [{"pkg_short": "flamego", "body": "VH_C17_render", "params": {"kind": k, "len": 3 if tier == "quick" else 5, "prior": prior, "nested": 0}, "max_paths": 200000}
            for k in ("json", "xml", "binary", "text") for prior in (0, 1)]
    jobs += [{"pkg_short": "flamego", "body": "VH_C17_render", "params": {"kind": k, "len": 2, "prior": 0, "nested": 1}, "max_paths": 200000}
             for k in ("json", "text")]
    return jobs


SPECS["C17"] = Spec(
    "C17", ["flamego/c13.go", "flamego/c17.go", "route/parse.go"], c17_jobs,
    assumptions=[
        "real Renderer()/render.JSON/XML/Binary/PlainText, inject (MapTo + resolution of the Render parameter by two later handlers), responseWriter; status symbolic in [100,999], charset symbolic, indentation on/off, body bytes symbolic",
        "REDUCED CLAIM: encoding/json and encoding/xml Encode are stubbed inside the interpreter (they record value and indentation and write a marker); json.NewEncoder/SetIndent and xml.NewEncoder/Indent run from SSA. That the body decodes back is the standard encoders' contract; it is exercised only natively, when witnesses are replayed (Unmarshal of the real output)",
        "encoder failures (http.Error path) are outside the claim",
    ],
    bounds=lambda tier: {"status": "[100,999]", "charset": "0..2 bytes", "body": "0..%d bytes" % (3 if tier == "quick" else 5)},
    rule="one job per render method; all option combinations",
)


# --------------------------------------------------------------------------- C06
C06_ROUTES = ["/a", "/a/?b", "/{x}", "/a{x}b", "/{x: /r/}", "/{x: **}", "/{x: **, capture: 3}", "/{a: /r/, b: /s/}-{c}/?{d: lit}",
              "/{**}/{x:    /r/,y:/s/}"]


C06_ELEMS = ["a", "{x}", "{x: l}", "{x: /r/}", "{x: l, y: m}", "{x: l, y: /s/}", "{x: /r/, y: m}", "{x: /r/, y: /s/}"]


def c06_shapes(tier):
    """Every segment structure with up to 2 (quick) / 3 (thorough) elements over the eight element kinds
    (no two adjacent identifiers: they would be one token), with and without the optional marker,
    alone and behind / in front of a second segment."""
    import itertools
    out = []
    for k in range(0, 3 if tier == "quick" else 4):
        for combo in itertools.product(range(len(C06_ELEMS)), repeat=k):
            if any(combo[i] == 0 and combo[i + 1] == 0 for i in range(k - 1)):
                continue
            seg = "".join(C06_ELEMS[c] for c in combo)
            out.append("/" + seg)
            out.append("/?" + seg)
            if k <= 1 or tier != "quick":
                out.append("/b/" + seg)
                out.append("/" + seg + "/{z: /t/}")
    return sorted(set(out))


def c06_jobs(tier, seed):
    jobs = [{"pkg_short": "route", "body": "VH_C06_render", "params": {"route": r, "toklen": 2 if tier == "quick" else 3}, "max_paths": 300000}
            for r in C06_ROUTES]
    jobs += [{"pkg_short": "route", "body": "VH_C06_render", "params": {"route": r, "toklen": 1, "fixed": 1}, "max_paths": 1000} for r in c06_shapes(tier)]
    return jobs


def c06_post(tier, seed):
    import c06lang
    return c06lang.analyse(tier, seed)


SPECS["C06"] = Spec(
    "C06", ["route/parse.go", "route/oracle.go", "route/c06.go"], c06_jobs, post=c06_post,
    assumptions=[
        "REDUCED CLAIM (DESIGN.md §4): totality and acceptance are not decided on participle's code (reflection-built parser, not executable by the interpreter). Decided instead:",
        "(a) rendering clause on the real code: Segment.String/Route.String executed from SSA on ASTs of 9 derivation shapes with every token's content symbolic (any bytes of any length up to the bound), and on EVERY segment structure with up to 2 (quick) / 3 (thorough) elements over the eight element kinds (identifier, {name}, one- and two-parameter lists with literal and regex values), with and without the optional marker, alone and next to a second segment, one symbolic byte per token, against the canonical concatenation of the statement; stable under the sync.Once cache",
        "(b) acceptance on a translation of flamego's own declarative artefacts, re-extracted from source each run (go/ast): the lexer.Rules literal gives the character classes of Ident and Regex; the parser struct tags give a token-level grammar; the README EBNF is parsed into the same two levels. The solver (z3-new 5.1.0, regex theory; z3 4.8.12 second opinion) decides class equality and token-level language equality up to the stated length, modulo what the stateful lexer can emit (adjacent Ident tokens; ':' after a value without ',' - two forbidden patterns derived by reading the rules)",
        "(b') character level, every byte string up to the bound: the lexer's state machine exactly as written in the source (states, rule order, first-match, greedy `+` tokens, push/pop actions on a stack of depth <= length+1) is composed with the Glushkov automaton of the struct-tag grammar and compared with the Glushkov automaton of the README <route> rule; one QF_BV query per length and direction over symbolic bytes (as indices into the coarsest partition of the byte alphabet respecting every character class in sight); unsat for all lengths = the two languages agree on every string up to the bound. The automata are also run concretely and must agree with the real parser / the README regular expression on every sample, and the solver's evaluation of concrete strings must agree with them (self-check), else the run is inconclusive",
        "(c) every witness, every class difference and >= 500 solver-drawn strings (inside and outside both languages, plus arbitrary bytes) are run through the real Parser.Parse: no panic; accepted iff in the README language; rendering equals the input with spacing normalised; the canonical form parses and renders to itself; the AST equals that of an independent recursive-descent parser. A faithful simulation of the stateful lexer (from the extracted rules) + token grammar must agree with the real parser on all of them, otherwise the run is inconclusive",
        "a defect of participle itself that the samples miss is invisible",
    ],
    bounds=lambda tier: {"byte_strings_lexer_vs_README": "every byte string (bytes 0x01-0xff) of length <= %d" % (16 if tier == "quick" else 22),
                         "token_strings": "length <= %d over {i,g,/,?,{,},:,comma,blank}" % (10 if tier == "quick" else 14),
                         "sample_strings": "length <= %d" % (10 if tier == "quick" else 12), "render_token_len": "0..%d bytes per token" % (2 if tier == "quick" else 3)},
    rule="(a) one job per derivation shape; (b) four class queries and two token-language queries; (b') two character-level queries per length; (c) solver-drawn samples",
)


# --------------------------------------------------------------------------- C05
def c05_jobs(tier, seed):
    n = 3 if tier == "quick" else 5
    jobs = []
    for prefix in ("/", "/s/", "/r/", "/m/", "/o", "/h", "/n/", "/g/c", "/d/", "/p/"):
        jobs.append({"pkg_short": "flamego", "setup": "VH_C05_setup", "body": "VH_C05_request",
                     "params": {"prefix": prefix, "n": n if prefix != "/" else n + 1}, "max_paths": 300000})
    # history: an earlier request for the same path with other headers / another method
    for prefix in ("/d/", "/h", "/s/", "/o"):
        jobs.append({"pkg_short": "flamego", "setup": "VH_C05_setup", "body": "VH_C05_request",
                     "params": {"prefix": prefix, "n": n - 1, "prior": 1}, "max_paths": 300000})
    return jobs


SPECS["C05"] = Spec(
    "C05", ["flamego/c13.go", "flamego/c05.go", "route/parse.go"], c05_jobs,
    assumptions=[
        "REDUCED CLAIM (DESIGN.md §3/C05, §4): thread interleavings are NOT explored. Decided is a sequential sufficient condition: during a request, for every input within the bounds, every store the framework executes targets memory allocated after the request entered ServeHTTP, or happens inside sync.Once.Do / under a held sync.Mutex / through sync/atomic. Then concurrent requests share only memory none of them writes unsynchronised, hence no data race on framework state and each response is a function of its own request (non-interference)",
        "the monitor is an assertion at every Store, MapUpdate, delete, in-place append, copy and reflect.Value.Set executed by the interpreter; shared memory = everything reachable from package globals (through them the application, its router trees, routes and injector) when the request starts",
        "one application (production mode) with a static-shortcut route, regex, match-all, optional, header-constrained and named routes, a Group with a Combo, request-scoped Map, Recovery with a route that panics (runtime.Caller is a stub stack of six frames in three files that the os.ReadFile stub knows), Renderer, URL building and a custom NotFound; the same request is served twice and must give the same response",
        "loggers and services the application maps itself are stubs; user handlers' own sharing, Flame.Run/Stop are outside the claim; stores performed by intrinsics (sync.Pool, strings.Builder) are not monitored",
    ],
    bounds=lambda tier: {"request_path": "route prefix + 0..%d arbitrary bytes" % (3 if tier == "quick" else 5), "method": "GET or POST", "header": "present or not"},
    rule="one job per route kind; every request within the bound; each Store executed is one monitored obligation",
)
