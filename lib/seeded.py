#!/usr/bin/env python3
"""Seeded changes: confirm a sub-agent's change (compiles, suite passes, demo fails with / passes without),
store it under /verif/seeded/<name>/, run checks against it on /repo (applied and undone straight away).

  seeded.py confirm <name> <srcdir> <property>     # srcdir holds patch.diff demo_test.go NOTES.md
  seeded.py run <name> [check ids...]               # default: the property's own check
  seeded.py table                                   # regenerate seeded/RESULTS.md
"""
import json, os, re, shutil, subprocess, sys, tempfile, time

VERIF = os.path.dirname(os.path.dirname(os.path.abspath(__file__)))
REPO = "/repo"
ENV = dict(os.environ, GOFLAGS="-mod=mod", GOPROXY="off", GOSUMDB="off", GOTOOLCHAIN="local")


def sh(cmd, cwd=None, timeout=1800):
    r = subprocess.run(cmd, cwd=cwd, env=ENV, capture_output=True, text=True, timeout=timeout, shell=isinstance(cmd, str))
    return r.returncode, r.stdout + r.stderr


def suite(wt):
    base = json.load(open("/root/.vp/BASELINE.json"))
    rc, out = sh(["go", "test", "-json", "-vet=off", "-count=1", "./..."], cwd=wt)
    status = {}
    for line in out.splitlines():
        try:
            e = json.loads(line)
        except Exception:
            continue
        if e.get("Test") and e.get("Action") in ("pass", "fail", "skip"):
            status[e["Package"] + "::" + e["Test"]] = e["Action"]
    bad = [t for t in base["stable_pass"] if status.get(t) != "pass"]
    return bad


def demo_dir(notes, demo_src):
    pkg = re.search(r"^package\s+(\w+)", open(demo_src).read(), re.M).group(1)
    return {"flamego": "", "flamego_test": "", "route": "internal/route", "inject": "inject", "inject_test": "inject", "route_test": "internal/route"}.get(pkg, "")


def run_demo(wt, src, sub):
    dst = os.path.join(wt, sub, "zz_seeded_demo_test.go")
    shutil.copy(src, dst)
    try:
        rc, out = sh(["go", "test", "-vet=off", "-count=1", "-run", "Seeded|Demo|Mutant|C[0-9][0-9]", "./" + sub], cwd=wt)
        # run exactly the tests defined in the demo file
        names = re.findall(r"^func (Test\w+)\(", open(src).read(), re.M)
        rc, out = sh(["go", "test", "-vet=off", "-count=1", "-run", "^(" + "|".join(names) + ")$", "./" + sub], cwd=wt)
        return rc, out[-1500:]
    finally:
        os.remove(dst)


def confirm(name, srcdir, prop):
    patch = os.path.join(srcdir, "patch.diff")
    demo = os.path.join(srcdir, "demo_test.go")
    wt = tempfile.mkdtemp(prefix="seedwt_", dir="/tmp")
    os.rmdir(wt)
    sh(["git", "-C", REPO, "worktree", "add", "-q", wt, "HEAD"])
    res = {"name": name, "property": prop}
    try:
        sub = demo_dir(os.path.join(srcdir, "NOTES.md"), demo)
        rc0, out0 = run_demo(wt, demo, sub)
        res["demo_passes_without_change"] = rc0 == 0
        rc, out = sh(["git", "apply", patch], cwd=wt)
        res["patch_applies"] = rc == 0
        if rc != 0:
            res["error"] = out[-500:]
            return res
        rc, out = sh(["go", "build", "./..."], cwd=wt)
        res["compiles"] = rc == 0
        bad = []
        good_runs = 0
        for attempt in range(12):  # three clean runs wanted: a change that makes the suite flaky does not count as passing it
            bad = suite(wt)
            root = [t for t in json.load(open("/root/.vp/BASELINE.json"))["stable_pass"] if t.startswith("github.com/flamego/flamego::")]
            if bad and len([t for t in bad if t.startswith("github.com/flamego/flamego::")]) >= len(root) - 2:
                # the whole root test binary died at once: TestFlame_Run binds fixed ports 4001/4002 and
                # collides with suite runs in other worktrees (seen on the unchanged tree too) - not the change
                time.sleep(3 + attempt)
                continue
            if bad:
                break
            good_runs += 1
            if good_runs == 3:
                break
        res["suite_still_passes"] = not bad
        res["suite_not_passing"] = bad[:5]
        rc1, out1 = run_demo(wt, demo, sub)
        res["demo_fails_with_change"] = rc1 != 0
        res["demo_output_with_change"] = out1[-600:]
        res["touches_tests"] = any(l.startswith("+++ ") and "_test.go" in l for l in open(patch))
        res["confirmed"] = all([res["demo_passes_without_change"], res["compiles"], res["suite_still_passes"], res["demo_fails_with_change"], not res["touches_tests"]])
        if res["confirmed"]:
            d = os.path.join(VERIF, "seeded", name)
            os.makedirs(d, exist_ok=True)
            shutil.copy(patch, os.path.join(d, "patch.diff"))
            shutil.copy(demo, os.path.join(d, "demo_test.go"))
            notes = open(os.path.join(srcdir, "NOTES.md")).read() if os.path.exists(os.path.join(srcdir, "NOTES.md")) else ""
            open(os.path.join(d, "NOTES.md"), "w").write(notes)
            meta = {"name": name, "property": prop, "demo_package_dir": sub or ".",
                    "what_it_needs_to_manifest": "", "confirmed": res, "checks": {},
                    "how_confirmed": "scratch worktree of /repo HEAD: demo passes without the change; patch applies; go build; the 358 stable tests pass; demo fails with the change"}
            mp = os.path.join(d, "meta.json")
            if os.path.exists(mp):  # re-confirmation (a patch ported to a newer /repo HEAD): keep what was recorded
                old = json.load(open(mp))
                old["confirmed"] = res
                old["ported_to"] = sh(["git", "-C", REPO, "rev-parse", "--short", "HEAD"])[1].strip()
                meta = old
            json.dump(meta, open(os.path.join(d, "meta.json"), "w"), indent=1)
        return res
    finally:
        sh(["git", "-C", REPO, "worktree", "remove", "--force", wt])


def run(name, checks):
    d = os.path.join(VERIF, "seeded", name)
    meta = json.load(open(os.path.join(d, "meta.json")))
    if not checks:
        checks = [meta["property"]]
    rc, out = sh(["git", "-C", REPO, "status", "--porcelain"])
    if out.strip():
        print("refusing: /repo is not clean:\n" + out)
        return 2
    rc, out = sh(["git", "-C", REPO, "apply", os.path.join(d, "patch.diff")])
    if rc != 0:
        print("patch does not apply:", out)
        return 2
    outdir = tempfile.mkdtemp(prefix="seedout_", dir="/tmp")  # evidence/ and replays/ of runs on a changed tree never land in /verif
    ENV["VERIF_OUT"] = outdir
    try:
        for c in checks:
            t0 = time.time()
            rc, out = sh([os.path.join(VERIF, "check"), c, os.environ.get("SEEDED_TIER", "quick")], cwd=VERIF, timeout=3600)
            viol = [l for l in out.splitlines() if l.startswith("VIOLATION")]
            clauses = sorted(set(l.strip() for l in out.splitlines() if l.strip().startswith("clause:")))
            inc = [l for l in out.splitlines() if l.startswith("INCONCLUSIVE")]
            verdict = "caught" if rc == 1 and viol else ("inconclusive" if rc == 2 else ("missed" if rc == 0 else "error"))
            meta["checks"][c] = {"verdict": verdict, "rc": rc, "violations": len(viol), "clauses": clauses[:4], "inconclusive": inc[:2],
                                 "tier": os.environ.get("SEEDED_TIER", "quick"), "wall_s": round(time.time() - t0, 1)}
            print(name, c, verdict, "violations=%d" % len(viol), clauses[:2], inc[:1])
    finally:
        sh(["git", "-C", REPO, "checkout", "--", "."])
        sh(["git", "-C", REPO, "clean", "-fdq"])
        shutil.rmtree(outdir, ignore_errors=True)
    json.dump(meta, open(os.path.join(d, "meta.json"), "w"), indent=1)
    return 0


def table():
    rows = []
    base = os.path.join(VERIF, "seeded")
    for name in sorted(os.listdir(base)):
        mp = os.path.join(base, name, "meta.json")
        if not os.path.exists(mp):
            continue
        m = json.load(open(mp))
        caught = [c for c, r in m["checks"].items() if r["verdict"] == "caught"]
        missed = [c for c, r in m["checks"].items() if r["verdict"] == "missed"]
        rows.append("| %s | %s | %s Needs: %s | %s | %s | %s |" % (name, m["property"], m.get("summary", "").replace("|", "/"), m.get("what_it_needs_to_manifest", "").replace("|", "/"),
                                                        ", ".join(caught) or "-", ", ".join(missed) or "-", m.get("history", "caught at first run").replace("|", "/")))
    out = ("# Seeded changes\n\nEach change compiles, passes the repository's 358 stable tests (three clean runs) and fails its own demonstration; "
           "checks were run at the quick tier with the change applied to /repo and undone straight afterwards.\n\n"
           "| change | property | what it does | caught by | missed by | history |\n|---|---|---|---|---|---|\n" + "\n".join(rows) + "\n")
    open(os.path.join(base, "RESULTS.md"), "w").write(out)
    print(out)


if __name__ == "__main__":
    if sys.argv[1] == "confirm":
        print(json.dumps(confirm(sys.argv[2], sys.argv[3], sys.argv[4]), indent=1))
    elif sys.argv[1] == "run":
        sys.exit(run(sys.argv[2], sys.argv[3:]))
    elif sys.argv[1] == "table":
        table()
