#!/bin/bash
# Runs every registered check at the given tier and prints one summary line each.
tier=${1:-quick}
cd /verif
for p in $(python3 -c "import json;print(' '.join(c['property_id'] for c in json.load(open('MANIFEST.json'))['checks']))"); do
  s=$(date +%s)
  out=$(timeout 3000 ./check $p $tier 2>&1); rc=$?
  e=$(( $(date +%s) - s ))
  echo "$p rc=$rc ${e}s :: $(echo "$out" | grep -E "^$p $tier" | cut -c1-220)"
  echo "$out" | grep -E "VIOLATION|INCONCLUSIVE|KNOWN-FINDING" | head -3 | cut -c1-300
done
