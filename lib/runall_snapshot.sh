#!/bin/bash
# Runs every check at the given tier against the /repo snapshot of a `vp run --with-repo` (or /repo itself).
tier=${1:-thorough}
export VERIF_REPO=${VP_RUN_REPO:-/repo}
cd "$(dirname "$0")/.."
(cd engine && GOFLAGS=-mod=mod GOPROXY=off GOSUMDB=off GOTOOLCHAIN=local go build -o ../bin/symx ./cmd/symx && GOFLAGS=-mod=mod GOPROXY=off GOSUMDB=off go build -o ../bin/grammardump ./cmd/grammardump)
for p in ${CHECKS:-$(python3 -c "import json;print(' '.join(c['property_id'] for c in json.load(open('MANIFEST.json'))['checks']))")}; do
  s=$(date +%s)
  out=$(timeout 9000 ./check $p $tier 2>&1); rc=$?
  e=$(( $(date +%s) - s ))
  echo "$p rc=$rc ${e}s :: $(echo "$out" | grep -E "^$p $tier" | cut -c1-260)"
  echo "$out" | grep -E "VIOLATION|INCONCLUSIVE|KNOWN-FINDING" | head -4 | cut -c1-400
done
