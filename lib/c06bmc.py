#!/usr/bin/env python3
"""C06, character level: the real lexer's state machine (rules, order, push/pop
actions, as extracted from the source by grammardump) composed with the token
grammar of the struct tags, against the README grammar - decided by the solver
for EVERY byte string up to a length bound.

Both sides are finite automata once the string length is bounded:

  M  the stateful lexer is a deterministic pushdown transducer (state stack of
     depth <= len+1) from bytes to tokens; its token stream drives the Glushkov
     automaton of the struct-tag grammar (token symbols: i = Ident, g = Regex,
     every other token is its own text);
  R  the README <route> rule as a Glushkov automaton over bytes.

For each length L <= n one SMT query over L symbolic bytes (as indices into the
coarsest partition of the byte alphabet that respects every character class in
sight) asks for a string on which acceptance differs. unsat for all L: the two
languages agree on all strings of length <= n. sat: the witness is run on the
real parser by the caller.

The same automata are also executed concretely (sim_M, sim_R); the caller checks
them against the real parser on its samples, and a few solver evaluations of
concrete strings are compared with the simulators (encoding self-check).
"""
import re, subprocess, time

from c06lang import Unsupported, parse_class_pattern

UNIVERSE = [chr(i) for i in range(1, 256)]


# --------------------------------------------------------------------------- Glushkov automaton of a regex AST
class Glushkov:
    def __init__(self, node):
        self.sets = []      # position -> frozenset of symbols
        self.follow = []    # position -> set of positions
        self.nullable, self.first, self.last = self._build(node)

    def _leaf(self, symbols):
        self.sets.append(frozenset(symbols))
        self.follow.append(set())
        p = len(self.sets) - 1
        return False, {p}, {p}

    def _cat(self, parts):
        nullable, first, last = True, set(), set()
        for (n2, f2, l2) in parts:
            for p in last:
                self.follow[p] |= f2
            if nullable:
                first = first | f2
            last = (last | l2) if n2 else set(l2)
            nullable = nullable and n2
        return nullable, first, last

    def _build(self, node):
        k = node[0]
        if k == "chars":
            if not node[1]:
                return False, set(), set()
            return self._leaf(node[1])
        if k == "lit":
            return self._cat([self._leaf({c}) for c in node[1]])
        if k == "cat":
            return self._cat([self._build(x) for x in node[1]])
        if k == "alt":
            nullable, first, last = False, set(), set()
            for x in node[1]:
                n2, f2, l2 = self._build(x)
                nullable, first, last = nullable or n2, first | f2, last | l2
            return nullable, first, last
        if k in ("star", "plus", "opt"):
            n2, f2, l2 = self._build(node[1])
            if k != "opt":
                for p in l2:
                    self.follow[p] |= f2
            return (True if k != "plus" else n2), f2, l2
        raise Unsupported("regex node " + k)

    def run(self, symbols):
        cur, init = set(), True
        for s in symbols:
            nxt = set()
            cand = set(self.first) if init else set()
            for p in cur:
                cand |= self.follow[p]
            for q in cand:
                if s in self.sets[q]:
                    nxt.add(q)
            cur, init = nxt, False
            if not cur:
                return False
        return self.nullable if init else bool(cur & self.last)


# --------------------------------------------------------------------------- the lexer, from the dump
class Lexer:
    def __init__(self, dump):
        self.state_names = sorted(dump["states"].keys())
        if "Root" not in self.state_names:
            raise Unsupported("lexer has no Root state")
        self.rules = []   # global rule list: dict(name, chars, plus, action, target)
        self.by_state = {}
        for st in self.state_names:
            self.by_state[st] = self._expand(dump, st, set())

    def _expand(self, dump, st, seen):
        out = []
        for r in dump["states"][st]:
            if r.get("include"):
                if r["include"] not in seen:
                    out += self._expand(dump, r["include"], seen | {st})
                continue
            cls, plus = parse_class_pattern(r["pattern"])
            act = r.get("action", "") or ""
            if act and not (act == "pop" or act.startswith("push:")):
                raise Unsupported("lexer action outside the translated subset: %r" % act)
            if act.startswith("push:") and act[5:] not in dump["states"]:
                raise Unsupported("push to unknown state %r" % act[5:])
            self.rules.append({"name": r["name"], "chars": frozenset(cls[1]), "plus": plus, "action": act, "state": st})
            out.append(len(self.rules) - 1)
        return out

    def symbol(self, rid, c):
        nm = self.rules[rid]["name"]
        if nm == "Ident":
            return "i"
        if nm == "Regex":
            return "g"
        if nm == "Whitespace":
            return " " if c == " " else "w"
        return c

    def tokens(self, s):
        """Token symbols of s, or None on a lexing error (concrete twin of the encoding)."""
        stack, out, pr = ["Root"], [], None
        for c in s:
            if pr is not None and c in self.rules[pr]["chars"]:
                continue
            pr = None
            rid = next((r for r in self.by_state[stack[-1]] if c in self.rules[r]["chars"]), None)
            if rid is None:
                return None
            out.append(self.symbol(rid, c))
            act = self.rules[rid]["action"]
            if act.startswith("push:"):
                stack.append(act[5:])
            elif act == "pop":
                stack.pop()
                if not stack:
                    return None
            if self.rules[rid]["plus"]:
                pr = rid
        return out


def partition(sets):
    """Coarsest partition of UNIVERSE respecting every set; returns (class index per char, representatives)."""
    sig = {}
    for c in UNIVERSE:
        sig.setdefault(tuple(c in s for s in sets), []).append(c)
    classes = sorted(sig.values(), key=lambda cs: cs[0])
    idx = {}
    for i, cs in enumerate(classes):
        for c in cs:
            idx[c] = i
    return idx, [cs[0] for cs in classes], classes


class Model:
    def __init__(self, dump, M_tok, R_char):
        self.lexer = Lexer(dump)
        self.gm = Glushkov(M_tok)
        self.gr = Glushkov(R_char)
        sets = [r["chars"] for r in self.lexer.rules] + list(self.gr.sets) + [frozenset({" "})]
        for s in self.gm.sets:
            for sym in s:
                if len(sym) == 1 and sym not in "igw":
                    sets.append(frozenset({sym}))
        self.cls_of, self.reps, self.classes = partition(sets)
        self.K = len(self.reps)
        self.tok_syms = sorted({sym for s in self.gm.sets for sym in s} | {"i", "g", "w", " "})

    # ---- concrete twins
    def sim_M(self, s):
        if any(c not in self.cls_of for c in s):
            return None
        ts = self.lexer.tokens(s)
        return ts is not None and self.gm.run(ts)

    def sim_R(self, s):
        if any(c not in self.cls_of for c in s):
            return None
        return self.gr.run(list(s))

    # ---- SMT
    def _in(self, i, chars):
        ids = sorted({self.cls_of[c] for c in chars if c in self.cls_of})
        full = [k for k in ids if all(c in chars for c in self.classes[k])]
        if len(full) != len(ids):
            raise Unsupported("internal: a character set cuts through a partition class")
        if not full:
            return "false"
        if len(full) == 1:
            return "(= c%d %d)" % (i, full[0])
        return "(or " + " ".join("(= c%d %d)" % (i, k) for k in full) + ")"

    def script(self, L, fix=None):
        """QF_BV; every intermediate is a declared constant tied by an equation (no macro expansion)."""
        lx = self.lexer
        S = {st: n for n, st in enumerate(lx.state_names)}
        D = L + 1
        NONE = 255
        o = ["(set-logic QF_BV)"]

        def bv(v):
            return "(_ bv%d 8)" % v

        def define(name, sort, expr):
            o.append("(declare-const %s %s)" % (name, "Bool" if sort == "Bool" else "(_ BitVec 8)"))
            o.append("(assert (= %s %s))" % (name, expr))

        def oneof(var, ids):
            if not ids:
                return "false"
            if len(ids) == 1:
                return "(= %s %s)" % (var, bv(ids[0]))
            return "(or " + " ".join("(= %s %s)" % (var, bv(k)) for k in ids) + ")"

        for i in range(L):
            o.append("(declare-const c%d (_ BitVec 8))" % i)
            o.append("(assert (bvult c%d %s))" % (i, bv(self.K)))
            if fix is not None:
                o.append("(assert (= c%d %s))" % (i, bv(self.cls_of[fix[i]])))
        define("dep0", "BV", bv(1))
        for d in range(D):
            define("st0_%d" % d, "BV", bv(S["Root"]) if d == 0 else bv(0))
        define("pr0", "BV", bv(NONE))
        define("err0", "Bool", "false")
        define("gi0", "Bool", "true")
        for p in range(len(self.gm.sets)):
            define("g0_%d" % p, "Bool", "false")
        define("ri0", "Bool", "true")
        for p in range(len(self.gr.sets)):
            define("r0_%d" % p, "Bool", "false")
        symid = {s: n for n, s in enumerate(self.tok_syms)}
        other = len(self.tok_syms)
        plus_ids = [rid for rid, r in enumerate(lx.rules) if r["plus"]]
        for i in range(L):
            j = i + 1
            ci = "c%d" % i
            # membership of this character in every class set in sight, once
            memo = {}

            def inset(chars):
                key = frozenset(chars)
                if key not in memo:
                    nm = "in%d_%d" % (i, len(memo))
                    define(nm, "Bool", self._in(i, key).replace("(= c%d " % i, "(= c%d (_ bv" % i).replace("(_ bv", "(_ bv") if False else self._in_bv(ci, key))
                    memo[key] = nm
                return memo[key]

            top = "st%d_0" % i
            for d in range(1, D):
                top = "(ite (= dep%d %s) st%d_%d %s)" % (i, bv(d + 1), i, d, top)
            define("top%d" % i, "BV", top)
            cont = ["(and (= pr%d %s) %s)" % (i, bv(rid), inset(lx.rules[rid]["chars"])) for rid in plus_ids]
            define("cont%d" % i, "Bool", "(or false " + " ".join(cont) + ")")
            rid_expr = bv(NONE)
            for st in lx.state_names:
                e = bv(NONE)
                for rid in reversed(lx.by_state[st]):
                    e = "(ite %s %s %s)" % (inset(lx.rules[rid]["chars"]), bv(rid), e)
                rid_expr = "(ite (= top%d %s) %s %s)" % (i, bv(S[st]), e, rid_expr)
            define("rid%d" % i, "BV", rid_expr)
            define("emit%d" % i, "Bool", "(and (not cont%d) (not (= rid%d %s)))" % (i, i, bv(NONE)))
            cls_sym = bv(other)
            for k in range(self.K):
                cs = self.classes[k]
                sid = symid.get(cs[0], other) if len(cs) == 1 else other
                if sid != other:
                    cls_sym = "(ite (= %s %s) %s %s)" % (ci, bv(k), bv(sid), cls_sym)
            sym = cls_sym
            for rid, r in enumerate(lx.rules):
                if r["name"] == "Ident":
                    sym = "(ite (= rid%d %s) %s %s)" % (i, bv(rid), bv(symid["i"]), sym)
                elif r["name"] == "Regex":
                    sym = "(ite (= rid%d %s) %s %s)" % (i, bv(rid), bv(symid["g"]), sym)
                elif r["name"] == "Whitespace":
                    sym = "(ite (= rid%d %s) (ite %s %s %s) %s)" % (i, bv(rid), inset({" "}), bv(symid[" "]), bv(symid["w"]), sym)
            define("sym%d" % i, "BV", sym)
            define("push%d" % i, "Bool", "(and emit%d %s)" % (i, oneof("rid%d" % i, [rid for rid, r in enumerate(lx.rules) if r["action"].startswith("push:")])))
            define("pop%d" % i, "Bool", "(and emit%d %s)" % (i, oneof("rid%d" % i, [rid for rid, r in enumerate(lx.rules) if r["action"] == "pop"])))
            tgt = bv(0)
            for rid, r in enumerate(lx.rules):
                if r["action"].startswith("push:"):
                    tgt = "(ite (= rid%d %s) %s %s)" % (i, bv(rid), bv(S[r["action"][5:]]), tgt)
            define("tgt%d" % i, "BV", tgt)
            define("dep%d" % j, "BV", "(ite push%d (bvadd dep%d %s) (ite pop%d (bvsub dep%d %s) dep%d))" % (i, i, bv(1), i, i, bv(1), i))
            for d in range(D):
                define("st%d_%d" % (j, d), "BV", "(ite (and push%d (= dep%d %s)) tgt%d st%d_%d)" % (i, i, bv(d), i, i, d))
            define("pr%d" % j, "BV", "(ite cont%d pr%d (ite (and emit%d %s) rid%d %s))" % (i, i, i, oneof("rid%d" % i, plus_ids), i, bv(NONE)))
            define("err%d" % j, "Bool", "(or err%d (and (not cont%d) (= rid%d %s)) (and pop%d (bvule dep%d %s)))" % (i, i, i, bv(NONE), i, i, bv(1)))
            for q in range(len(self.gm.sets)):
                pred = ["g%d_%d" % (i, p) for p in range(len(self.gm.sets)) if q in self.gm.follow[p]]
                if q in self.gm.first:
                    pred.append("gi%d" % i)
                insym = oneof("sym%d" % i, [symid[s] for s in sorted(self.gm.sets[q])])
                define("g%d_%d" % (j, q), "Bool", "(ite emit%d (and %s (or false %s)) g%d_%d)" % (i, insym, " ".join(pred), i, q))
            define("gi%d" % j, "Bool", "(and gi%d (not emit%d))" % (i, i))
            for q in range(len(self.gr.sets)):
                pred = ["r%d_%d" % (i, p) for p in range(len(self.gr.sets)) if q in self.gr.follow[p]]
                if q in self.gr.first:
                    pred.append("ri%d" % i)
                define("r%d_%d" % (j, q), "Bool", "(and %s (or false %s))" % (inset(self.gr.sets[q]), " ".join(pred)))
            define("ri%d" % j, "Bool", "false")
        accg = ["g%d_%d" % (L, p) for p in sorted(self.gm.last)] + (["gi%d" % L] if self.gm.nullable else [])
        accr = ["r%d_%d" % (L, p) for p in sorted(self.gr.last)] + (["ri%d" % L] if self.gr.nullable else [])
        define("accM", "Bool", "(and (not err%d) (or false %s))" % (L, " ".join(accg)))
        define("accR", "Bool", "(or false %s)" % " ".join(accr))
        return o

    def _in_bv(self, var, chars):
        ids = sorted({self.cls_of[c] for c in chars if c in self.cls_of})
        for k in ids:
            if not all(c in chars for c in self.classes[k]):
                raise Unsupported("internal: a character set cuts through a partition class")
        if not ids:
            return "false"
        if len(ids) == 1:
            return "(= %s (_ bv%d 8))" % (var, ids[0])
        return "(or " + " ".join("(= %s (_ bv%d 8))" % (var, k) for k in ids) + ")"

    def decode(self, out, L):
        vals = dict((int(a), int(b, 16)) for a, b in re.findall(r"\(c(\d+) #x([0-9a-fA-F]+)\)", out))
        return "".join(self.reps[vals[i]] for i in range(L))


def solve(binary, lines, timeout):
    t0 = time.time()
    try:
        r = subprocess.run([binary, "-in"], input="\n".join(lines) + "\n", capture_output=True, text=True, timeout=timeout)
    except subprocess.TimeoutExpired:
        return "timeout", "", time.time() - t0
    out = r.stdout.strip()
    first = out.splitlines()[0] if out else "none"
    if any(l.startswith("(error") and "model is not available" not in l for l in out.splitlines()):
        return "error", out[:300], time.time() - t0
    return first, out, time.time() - t0


def compare(model, n, binary="z3", timeout=300, second=None, second_upto=10, workers=16):
    """For every L <= n: a string with accM != accR?  Returns (queries, witnesses, inconclusive)."""
    from concurrent.futures import ThreadPoolExecutor
    tasks = []
    for L in range(n + 1):
        for direction, cond in (("lexer+struct tags accept, README rejects", "(and accM (not accR))"),
                                ("README accepts, lexer+struct tags reject", "(and accR (not accM))")):
            tasks.append((L, direction, cond))

    def one(t):
        L, direction, cond = t
        lines = model.script(L) + ["(assert %s)" % cond, "(check-sat)"]
        full = lines + (["(get-value (%s))" % " ".join("c%d" % i for i in range(L))] if L else [])
        v, out, dt = solve(binary, full, timeout)
        q = {"query": "length %d: %s" % (L, direction), "solver": binary, "verdict": v, "s": round(dt, 2)}
        w, inc = None, []
        if v == "sat":
            w = model.decode(out, L)
            q["witness"] = w
        elif v != "unsat":
            inc.append("character-level comparison, length %d (%s): %s" % (L, direction, v))
        if second and v in ("sat", "unsat") and L <= second_upto:
            v2, _, dt2 = solve(second, lines, timeout)
            if v2 in ("sat", "unsat") and v2 != v:
                inc.append("solvers disagree at length %d (%s): %s %s, %s %s" % (L, direction, binary, v, second, v2))
            q["second_opinion"] = {"solver": second, "verdict": v2, "s": round(dt2, 2)}
        return q, (direction, w) if w is not None else None, inc

    queries, witnesses, inconclusive = [], [], []
    with ThreadPoolExecutor(max_workers=workers) as pool:
        for q, w, inc in pool.map(one, sorted(tasks, key=lambda t: -t[0])):
            queries.append(q)
            if w:
                witnesses.append(w)
            inconclusive += inc
    queries.sort(key=lambda q: int(q["query"].split()[1].rstrip(":")))
    return queries, witnesses, inconclusive


def self_check(model, strings, binary="z3", timeout=60):
    """The solver's evaluation of concrete strings must equal the concrete twins."""
    bad = []
    for s in strings:
        if any(c not in model.cls_of for c in s):
            continue
        lines = model.script(len(s), fix=s) + ["(check-sat)", "(get-value (accM accR))"]
        v, out, dt = solve(binary, lines, timeout)
        if v != "sat":
            bad.append("self-check of %r: %s" % (s, v))
            continue
        m = re.search(r"\(accM (true|false)\)\s*\(accR (true|false)\)", out)
        got = (m.group(1) == "true", m.group(2) == "true") if m else None
        want = (model.sim_M(s), model.sim_R(s))
        if got != want:
            bad.append("self-check of %r: solver %s, simulators %s" % (s, got, want))
    return bad
