#!/usr/bin/env python3
"""C06, acceptance clause: regular-language comparison of the route language
defined by /repo's lexer rules + parser struct tags (re-extracted from source
on every run) with the README EBNF, decided in the solver's regex theory
(z3-new primary, z3 4.8.12 second opinion); every witness and >= 500
solver-drawn strings are confirmed on the real parser.  See DESIGN.md §3/C06, §4.
"""
import json
import os
import random
import re
import subprocess
import tempfile
import time

VERIF = os.path.dirname(os.path.dirname(os.path.abspath(__file__)))
REPO = os.environ.get("VERIF_REPO", "/repo")
GOENV = dict(os.environ, GOFLAGS="-mod=mod", GOPROXY="off", GOSUMDB="off", GOTOOLCHAIN="local")


class Unsupported(Exception):
    pass


# --------------------------------------------------------------------------- regex AST -> SMT-LIB
def smt_char(c):
    o = ord(c)
    if c in '"\\' or o < 0x20 or o > 0x7e:
        return '(str.to_re "\\u{%x}")' % o
    return '(str.to_re "%s")' % c


def smt(node):
    k = node[0]
    if k == "chars":  # set of characters
        cs = sorted(node[1])
        if not cs:
            return "re.none"
        # compress to ranges
        parts = []
        i = 0
        while i < len(cs):
            j = i
            while j + 1 < len(cs) and ord(cs[j + 1]) == ord(cs[j]) + 1:
                j += 1
            if j - i >= 2:
                parts.append('(re.range "%s" "%s")' % (esc(cs[i]), esc(cs[j])))
            else:
                for c in cs[i:j + 1]:
                    parts.append(smt_char(c))
            i = j + 1
        return parts[0] if len(parts) == 1 else "(re.union " + " ".join(parts) + ")"
    if k == "lit":
        if node[1] == "":
            return '(str.to_re "")'
        return '(str.to_re "%s")' % "".join(esc(c) for c in node[1])
    if k == "cat":
        xs = [smt(x) for x in node[1]]
        if not xs:
            return '(str.to_re "")'
        return xs[0] if len(xs) == 1 else "(re.++ " + " ".join(xs) + ")"
    if k == "alt":
        xs = [smt(x) for x in node[1]]
        return xs[0] if len(xs) == 1 else "(re.union " + " ".join(xs) + ")"
    if k == "star":
        return "(re.* " + smt(node[1]) + ")"
    if k == "plus":
        return "(re.+ " + smt(node[1]) + ")"
    if k == "opt":
        return "(re.opt " + smt(node[1]) + ")"
    raise Unsupported("regex node " + k)


def esc(c):
    o = ord(c)
    if c in '"\\' or o < 0x20 or o > 0x7e:
        return "\\u{%x}" % o
    return c


def pyre(node):
    """The same regular expression as a Python pattern (membership of concrete strings)."""
    k = node[0]
    if k == "chars":
        return "[" + "".join(re.escape(c) for c in sorted(node[1])) + "]" if node[1] else "(?!)"
    if k == "lit":
        return re.escape(node[1])
    if k == "cat":
        return "".join("(?:%s)" % pyre(x) for x in node[1])
    if k == "alt":
        return "(?:" + "|".join("(?:%s)" % pyre(x) for x in node[1]) + ")"
    if k == "star":
        return "(?:%s)*" % pyre(node[1])
    if k == "plus":
        return "(?:%s)+" % pyre(node[1])
    if k == "opt":
        return "(?:%s)?" % pyre(node[1])
    raise Unsupported("regex node " + k)


def alphabet(node, acc=None):
    acc = set() if acc is None else acc
    k = node[0]
    if k == "chars":
        acc |= set(node[1])
    elif k == "lit":
        acc |= set(node[1])
    elif k in ("cat", "alt"):
        for x in node[1]:
            alphabet(x, acc)
    else:
        alphabet(node[1], acc)
    return acc


# --------------------------------------------------------------------------- lexer patterns
def parse_class_pattern(pat):
    """Supports the pattern shapes the route lexer uses: a literal character,
    `[...]` or `[...]+` with ranges and backslash escapes, and `\\s`."""
    if pat == "\\s":
        return ("chars", set(" \t\n\r\f\v")), False
    if len(pat) == 1:
        return ("chars", {pat}), False
    m = re.fullmatch(r"\[(.*)\](\+?)", pat, re.S)
    if not m:
        raise Unsupported("lexer pattern outside the translated subset: %r" % pat)
    body, plus = m.group(1), m.group(2) == "+"
    chars = set()
    i = 0
    items = []
    while i < len(body):
        c = body[i]
        if c == "\\":
            i += 1
            if i >= len(body):
                raise Unsupported("dangling escape in %r" % pat)
            c = body[i]
            if c.isalnum():
                raise Unsupported("class escape \\%s in %r" % (c, pat))
        items.append(c)
        i += 1
    # ranges: x-y where '-' is unescaped and between two items: re-scan raw text
    i = 0
    raw = []
    while i < len(body):
        if body[i] == "\\":
            raw.append(("c", body[i + 1]))
            i += 2
        elif body[i] == "-":
            raw.append(("dash", "-"))
            i += 1
        else:
            raw.append(("c", body[i]))
            i += 1
    j = 0
    while j < len(raw):
        if j + 2 < len(raw) and raw[j][0] == "c" and raw[j + 1][0] == "dash" and raw[j + 2][0] == "c":
            for o in range(ord(raw[j][1]), ord(raw[j + 2][1]) + 1):
                chars.add(chr(o))
            j += 3
        else:
            chars.add(raw[j][1])
            j += 1
    return ("chars", chars), plus


def lexer_tokens(dump):
    """token name -> regex AST, resolving includes; also the set of literal
    token texts per state is implied by single-character patterns."""
    toks = {}
    for state, rules in dump["states"].items():
        for r in rules:
            if r.get("include"):
                continue
            cls, plus = parse_class_pattern(r["pattern"])
            node = ("plus", cls) if plus else cls
            if r["name"] in toks and toks[r["name"]] != node:
                # same token name with different patterns in different states: keep the union
                toks[r["name"]] = ("alt", [toks[r["name"]], node])
            else:
                toks[r["name"]] = node
    return toks


# --------------------------------------------------------------------------- participle struct tags
def tokenize_tag(tag):
    out = []
    i = 0
    while i < len(tag):
        c = tag[i]
        if c.isspace():
            i += 1
        elif c == "'":
            j = tag.index("'", i + 1)
            out.append(("lit", tag[i + 1:j]))
            i = j + 1
        elif c == "@":
            if tag[i + 1] == "@":
                out.append(("self", None))
                i += 2
            elif tag[i + 1] == "'":
                j = tag.index("'", i + 2)
                out.append(("lit", tag[i + 2:j]))
                i = j + 1
            else:
                j = i + 1
                while j < len(tag) and (tag[j].isalnum() or tag[j] == "_"):
                    j += 1
                out.append(("tok", tag[i + 1:j]))
                i = j
        elif c in "()|*+?":
            out.append((c, None))
            i += 1
        elif c.isalpha() or c == "_":
            # a bare identifier matches a token by its type (without capturing it)
            j = i
            while j < len(tag) and (tag[j].isalnum() or tag[j] == "_"):
                j += 1
            out.append(("tok", tag[i:j]))
            i = j
        else:
            raise Unsupported("participle tag syntax outside the translated subset: %r in %r" % (c, tag))
    return out


class TagParser:
    def __init__(self, toks, ftype, model):
        self.t, self.p, self.ftype, self.model = toks, 0, ftype, model

    def peek(self):
        return self.t[self.p][0] if self.p < len(self.t) else None

    def alt(self):
        xs = [self.seq()]
        while self.peek() == "|":
            self.p += 1
            xs.append(self.seq())
        return xs[0] if len(xs) == 1 else ("alt", xs)

    def seq(self):
        xs = []
        while self.peek() not in (None, "|", ")"):
            xs.append(self.post())
        return ("cat", xs)

    def post(self):
        a = self.atom()
        while self.peek() in ("*", "+", "?"):
            op = self.peek()
            self.p += 1
            a = {"*": ("star", a), "+": ("plus", a), "?": ("opt", a)}[op]
        return a

    def atom(self):
        k, v = self.t[self.p]
        self.p += 1
        if k == "lit":
            return ("lit", v)
        if k == "tok":
            if v not in self.model["tokens"]:
                raise Unsupported("grammar refers to unknown token @" + v)
            return self.model["tokens"][v]
        if k == "self":
            return struct_regex(self.ftype, self.model)
        if k == "(":
            a = self.alt()
            if self.peek() != ")":
                raise Unsupported("unbalanced group in tag")
            self.p += 1
            return a
        raise Unsupported("unexpected %r in tag" % k)


def struct_regex(name, model):
    name = name.lstrip("*[]")
    if name in model["memo"]:
        return model["memo"][name]
    if name in model["open"]:
        raise Unsupported("recursive grammar at " + name)
    model["open"].add(name)
    parts = []
    alts = None
    # participle: the fields of a struct form one sequence; a tag that starts
    # with '|' continues an alternation with the previous fields.
    seq = []
    for f in model["structs"][name]:
        tag = f["tag"]
        if tag in ("", "-"):
            continue
        toks = tokenize_tag(tag)
        if toks and toks[0][0] == "|":
            if alts is None:
                alts = [("cat", seq)]
            else:
                alts.append(("cat", seq))
            seq = []
            toks = toks[1:]
        node = TagParser(toks, f["type"], model).alt()
        seq.append(node)
    if alts is not None:
        alts.append(("cat", seq))
        res = ("alt", alts)
    else:
        res = ("cat", seq)
    model["open"].discard(name)
    model["memo"][name] = res
    return res


def impl_language(dump):
    model = {"tokens": lexer_tokens(dump), "structs": dump["structs"], "memo": {}, "open": set()}
    return struct_regex("Route", model), model


# --------------------------------------------------------------------------- README EBNF
def readme_language(path, token_level=False):
    """Returns (regex AST of <route>, {"ident": set, "regex": set}). With
    token_level, <ident> becomes the symbol i and "/" <any>+ "/" becomes /g/."""
    text = open(path).read()
    m = re.search(r"```ebnf\n(.*?)```", text, re.S)
    if not m:
        raise Unsupported("README has no ebnf block")
    rules = {}
    order = []
    for line in m.group(1).splitlines():
        line = line.strip()
        if not line or line.startswith("/*"):
            continue
        mm = re.match(r"<([a-z_]+)>\s*::=\s*(.*)$", line)
        if not mm:
            raise Unsupported("README grammar line not understood: " + line)
        rules[mm.group(1)] = mm.group(2)
        order.append(mm.group(1))
    memo = {}

    def toks(rhs):
        out = []
        i = 0
        while i < len(rhs):
            c = rhs[i]
            if c.isspace():
                i += 1
            elif c == "<":
                j = rhs.index(">", i)
                out.append(("ref", rhs[i + 1:j]))
                i = j + 1
            elif c == '"':
                j = i + 1
                s = ""
                while rhs[j] != '"':
                    if rhs[j] == "\\":
                        j += 1
                    s += rhs[j]
                    j += 1
                out.append(("lit", s))
                i = j + 1
            elif c == "[":
                j = rhs.index("]", i)
                body = rhs[i + 1:j]
                mm = re.fullmatch(r"(.)-(.)", body)
                if not mm:
                    raise Unsupported("README class " + body)
                out.append(("chars", {chr(o) for o in range(ord(mm.group(1)), ord(mm.group(2)) + 1)}))
                i = j + 1
            elif c in "|*+?":
                out.append((c, None))
                i += 1
            else:
                raise Unsupported("README grammar token %r" % c)
        return out

    def charset(name):
        node = rule_plain(name)
        out = set()

        def walk(n):
            if n[0] == "chars":
                out.update(n[1])
            elif n[0] == "lit" and len(n[1]) == 1:
                out.add(n[1])
            elif n[0] in ("alt", "cat"):
                for x in n[1]:
                    walk(x)
            else:
                raise Unsupported("README class rule <%s> is not a plain set of characters" % name)
        walk(node)
        return out

    def rule_plain(name):
        saved = dict(memo)
        memo.clear()
        try:
            return rule(name, plain=True)
        finally:
            memo.clear()
            memo.update(saved)

    def rule(name, plain=False):
        if token_level and not plain:
            if name == "ident":
                return ("lit", "i")
        if name in memo:
            return memo[name]
        ts = toks(rules[name])
        # split alternatives
        alts = [[]]
        for t in ts:
            if t[0] == "|":
                alts.append([])
            else:
                alts[-1].append(t)

        def seq(items, selfname):
            xs = []
            for k, v in items:
                if k in ("*", "+", "?"):
                    a = xs.pop()
                    if token_level and not plain and k == "+" and a == ("ref!", "any"):
                        xs.append(("lit", "g"))
                    else:
                        if a[0] == "ref!":
                            a = rule(a[1], plain)
                        xs.append({"*": ("star", a), "+": ("plus", a), "?": ("opt", a)}[k])
                elif k == "ref":
                    if v == selfname:
                        raise Unsupported("recursion in README rule " + v)
                    if token_level and not plain and v == "any":
                        xs.append(("ref!", "any"))
                    else:
                        xs.append(rule(v, plain))
                elif k == "lit":
                    xs.append(("lit", v))
                else:
                    xs.append(("chars", v))
            xs = [rule(x[1], plain) if x[0] == "ref!" else x for x in xs]
            return ("cat", xs)

        base, rec = [], []
        for a in alts:
            if a and a[0] == ("ref", name):
                rec.append(seq(a[1:], name))
            else:
                base.append(seq(a, name))
        node = base[0] if len(base) == 1 else ("alt", base)
        if rec:  # A ::= B | A C  ==  B C*
            tail = rec[0] if len(rec) == 1 else ("alt", rec)
            node = ("cat", [node, ("star", tail)])
        memo[name] = node
        return node

    classes = {"ident": charset("char"), "regex": charset("any")}
    memo.clear()
    return rule("route"), classes


# --------------------------------------------------------------------------- solver
def run_solver(binary, script, timeout):
    t0 = time.time()
    try:
        r = subprocess.run([binary, "-in"] if "z3" in binary else [binary], input=script, capture_output=True, text=True, timeout=timeout)
        out = r.stdout
    except subprocess.TimeoutExpired:
        return "timeout", None, time.time() - t0
    lines = out.strip().splitlines()
    verdict = lines[0] if lines else "none"
    # the only tolerated (error line is get-value's "model is not available" after unsat
    errs = [l for l in lines if l.startswith("(error") and not (verdict == "unsat" and "model is not available" in l)]
    if errs:
        return "error:" + " ".join(errs)[:200], None, time.time() - t0
    val = None
    if verdict == "sat":
        m = re.search(r'\(\(s "(.*)"\)\)', out, re.S)
        if m:
            val = unescape_smt(m.group(1))
    return verdict, val, time.time() - t0


def unescape_smt(s):
    s = s.replace('""', '"')

    def rep(m):
        return chr(int(m.group(1), 16))
    return re.sub(r"\\u\{([0-9a-fA-F]+)\}", rep, s)


def smt_str(s):
    return '"' + "".join(esc(c) if c != '"' else '""' for c in s) + '"'


def query(defs, asserts, n, block, binary="z3-new", timeout=120):
    script = "(set-logic ALL)\n(declare-const s String)\n" + defs + "(assert (<= (str.len s) %d))\n" % n
    for a in asserts:
        script += "(assert %s)\n" % a
    for b in block:
        script += "(assert (not (= s %s)))\n" % smt_str(b)
    script += "(check-sat)\n(get-value (s))\n"
    return run_solver(binary, script, timeout)


# --------------------------------------------------------------------------- real parser
def real_parser(strings, tmp):
    """Runs the real participle parser natively on the given strings."""
    inp = os.path.join(tmp, "parse_in.json")
    outp = os.path.join(tmp, "parse_out.json")
    json.dump([[ord(c) & 0xff for c in s] for s in strings], open(inp, "w"))
    ov = {os.path.join(REPO, "internal/vx/vx.go"): os.path.join(VERIF, "harness/vx/vx.go"),
          os.path.join(REPO, "internal/route/zz_verif_parse.go"): os.path.join(VERIF, "harness/route/parse.go"),
          os.path.join(REPO, "internal/route/zz_verif_parse_test.go"): os.path.join(VERIF, "harness/route/parse_native_test.go")}
    for f in os.listdir(os.path.join(REPO, "internal/route")):
        if f.endswith("_test.go"):
            ov[os.path.join(REPO, "internal/route", f)] = ""
    ovp = os.path.join(tmp, "ov_parse.json")
    json.dump({"Replace": ov}, open(ovp, "w"))
    env = dict(GOENV, VERIF_PARSE_FILE=inp, VERIF_PARSE_OUT=outp)
    r = subprocess.run(["go", "test", "-tags", "verif", "-vet=off", "-count=1", "-overlay", ovp, "-run", "^TestVerifParse$",
                        "./internal/route/"], cwd=REPO, env=env, capture_output=True, text=True)
    if r.returncode != 0 or not os.path.exists(outp):
        raise RuntimeError("native parser run failed:\n" + (r.stdout + r.stderr)[-2000:])
    return json.load(open(outp))


def canonical_of(s):
    """The statement's canonical form of a string of the language: spacing after
    ':' and ',' (outside regex text) normalised to one blank."""
    out = []
    i = 0
    depth = 0
    while i < len(s):
        c = s[i]
        out.append(c)
        i += 1
        if c == "{":
            depth += 1
        elif c == "}":
            depth = max(0, depth - 1)
        elif depth > 0 and c in ":,":
            while i < len(s) and s[i] == " ":
                i += 1
            out.append(" ")
            if c == ":" and i < len(s) and s[i] == "/":
                j = s.find("/", i + 1)
                if j < 0:
                    j = len(s) - 1
                out.append(s[i:j + 1])
                i = j + 1
    return "".join(out)


# --------------------------------------------------------------------------- faithful lexer simulation (from the dump)
class PyLexer:
    def __init__(self, dump):
        self.states = {}
        for st, rules in dump["states"].items():
            self.states[st] = self._expand(dump, st, set())

    def _expand(self, dump, st, seen):
        out = []
        for r in dump["states"][st]:
            if r.get("include"):
                if r["include"] not in seen:
                    out += self._expand(dump, r["include"], seen | {st})
            else:
                out.append((r["name"], re.compile(r["pattern"], re.S), r.get("action", "")))
        return out

    def tokens(self, s):
        stack = ["Root"]
        pos = 0
        out = []
        while pos < len(s):
            for name, pat, action in self.states[stack[-1]]:
                m = pat.match(s, pos)
                if m and m.end() > pos:
                    out.append((name, m.group(0)))
                    pos = m.end()
                    if action.startswith("push:"):
                        stack.append(action[5:])
                    elif action == "pop":
                        stack.pop()
                        if not stack:
                            return None
                    break
            else:
                return None
        return out


def tok_regex(node, model, sym):
    """Re-targets the grammar AST to the token alphabet: sym maps token ASTs to symbols."""
    return node


def analyse(tier, seed):
    t0 = time.time()
    res = {"violations": [], "inconclusive": [], "known": [], "coverage": {}}
    n_tok = 10 if tier == "quick" else 14
    n = 10 if tier == "quick" else 12
    tmp = tempfile.mkdtemp(prefix="verif_c06_")
    try:
        dump = json.loads(subprocess.run([os.path.join(VERIF, "bin", "grammardump"), os.path.join(REPO, "internal/route")],
                                         capture_output=True, text=True, check=True).stdout)
        try:
            if dump.get("unresolved"):
                raise Unsupported("lexer/grammar source uses expressions the extractor cannot evaluate: %s" % dump["unresolved"])
            for st, rules in dump["states"].items():
                for r in rules:
                    if not r.get("include") and not r.get("pattern"):
                        raise Unsupported("lexer rule %s/%s has no extractable pattern" % (st, r.get("name")))
            if not dump["states"] or "Route" not in dump["structs"]:
                raise Unsupported("lexer rules or grammar structs not found in source")
            toks = lexer_tokens(dump)
            ident_cls = toks["Ident"][1][1] if toks["Ident"][0] == "plus" else None
            regex_cls = toks["Regex"][1][1] if toks["Regex"][0] == "plus" else None
            if ident_cls is None or regex_cls is None:
                raise Unsupported("Ident/Regex tokens are not of the form [class]+")
            # ---- token-level language of the implementation: @Ident -> i, @Regex -> g
            tmodel = {"tokens": dict(toks), "structs": dump["structs"], "memo": {}, "open": set()}
            tmodel["tokens"]["Ident"] = ("lit", "i")
            tmodel["tokens"]["Regex"] = ("lit", "g")
            if "Whitespace" in tmodel["tokens"]:
                tmodel["tokens"]["Whitespace"] = ("chars", {" ", "w"})  # token symbols: a blank, any other white space
            M_tok = struct_regex("Route", tmodel)
            # ---- README: character classes and token-level language
            R_char, rclasses = readme_language(os.path.join(REPO, "internal/route/README.md"), token_level=False)
            R_tok, _ = readme_language(os.path.join(REPO, "internal/route/README.md"), token_level=True)
            M_char, _ = impl_language(dump)
        except Unsupported as e:
            res["inconclusive"].append("grammar extraction: %s" % e)
            return res
        punct = set("/?{}:, ")
        if (ident_cls | regex_cls) & set("/{}:") or "i" not in ident_cls:
            pass
        queries = []

        # ---- (1) character classes, decided by the solver: a character in exactly one of the two classes
        def class_query(name, a, b):
            script = "(set-logic ALL)\n(declare-const s String)\n(assert (= (str.len s) 1))\n(assert (str.in_re s %s))\n(assert (not (str.in_re s %s)))\n" % (
                smt(("chars", a)), smt(("chars", b)))
            found = []
            for _ in range(40):
                v, w, dt = run_solver("z3-new", script + "".join("(assert (not (= s %s)))\n" % smt_str(x) for x in found) + "(check-sat)\n(get-value (s))\n", 30)
                if v != "sat":
                    if v != "unsat":
                        res["inconclusive"].append("class query %s: %s" % (name, v))
                    break
                found.append(w)
            queries.append({"query": name, "solver": "z3-new 5.1.0", "verdict": "sat" if found else "unsat", "witness": "".join(found)})
            return found
        d_ident_impl = class_query("chars the lexer's Ident accepts but README <char> lacks", ident_cls, rclasses["ident"])
        d_ident_doc = class_query("chars README <char> allows but the lexer's Ident rejects", rclasses["ident"], ident_cls)
        d_regex_impl = class_query("chars the lexer's Regex accepts but README <any> lacks", regex_cls, rclasses["regex"])
        d_regex_doc = class_query("chars README <any> allows but the lexer's Regex rejects", rclasses["regex"], regex_cls)

        # ---- (2) token-level grammar equivalence, modulo what the stateful lexer can emit
        sigma = '(re.union (str.to_re "i") (str.to_re "g") (str.to_re "/") (str.to_re "?") (str.to_re "{") (str.to_re "}") (str.to_re ":") (str.to_re ",") (str.to_re " ") (str.to_re "w"))'
        lexable = ("(re.inter (re.comp (re.++ (re.* SIG) (str.to_re \"ii\") (re.* SIG))) "
                   "(re.comp (re.++ (re.* SIG) (str.to_re \"g/i:\") (re.* SIG))) "
                   "(re.comp (re.++ (re.* SIG) (str.to_re \":i:\") (re.* SIG))) "
                   "(re.comp (re.++ (re.* SIG) (str.to_re \": i:\") (re.* SIG))))").replace("SIG", "SIG")
        defs = "(define-fun SIG () RegLan %s)\n(define-fun LEX () RegLan %s)\n(define-fun M () RegLan (re.inter %s LEX))\n(define-fun R () RegLan (re.inter %s LEX))\n" % (
            sigma, lexable, smt(M_tok), smt(R_tok))
        tok_witness = {}
        for name, asserts in (("token grammar: impl \\ README", ["(str.in_re s M)", "(not (str.in_re s R))"]),
                              ("token grammar: README \\ impl", ["(str.in_re s R)", "(not (str.in_re s M))"])):
            v, w, dt = query(defs, asserts, n_tok, [], timeout=300)
            queries.append({"query": name, "bound": "token strings of length <= %d" % n_tok, "solver": "z3-new 5.1.0", "verdict": v, "witness": w, "s": round(dt, 2)})
            v2, w2, dt2 = query(defs, asserts, min(n_tok, 8), [], binary="z3", timeout=120)
            queries.append({"query": name + " (second opinion)", "bound": "length <= %d" % min(n_tok, 8), "solver": "z3 4.8.12", "verdict": v2, "witness": w2, "s": round(dt2, 2)})
            if v not in ("sat", "unsat"):
                res["inconclusive"].append("%s: solver said %s" % (name, v))
            if v == "unsat" and v2 == "sat":
                res["inconclusive"].append("%s: solvers disagree (z3-new unsat, z3 4.8.12 sat %r)" % (name, w2))
            if v == "sat":
                tok_witness[name] = w

        # ---- (3) character level, all byte strings up to a bound: the lexer's state machine (rules, order,
        #      push/pop) composed with the struct-tag grammar vs the README grammar (lib/c06bmc.py)
        import c06bmc
        n_char = 16 if tier == "quick" else 22
        bmc_model = None
        bmc_witnesses = []
        try:
            bmc_model = c06bmc.Model(dump, M_tok, R_char)
            bq, bmc_witnesses, binc = c06bmc.compare(bmc_model, n_char, binary="z3", timeout=120 if tier == "quick" else 900,
                                                     second="z3-new", second_upto=8 if tier == "quick" else 12)
            res["inconclusive"] += binc
            queries.append({"query": "character level: lexer state machine + struct tags vs README, every byte string of length <= %d" % n_char,
                            "solver": "z3 4.8.12 (QF_BV), second opinion z3-new 5.1.0 on short lengths",
                            "verdict": "sat" if bmc_witnesses else ("unknown" if binc else "unsat"),
                            "queries": len(bq), "s": round(sum(q["s"] for q in bq), 1),
                            "slowest_s": max(q["s"] for q in bq), "byte_classes": bmc_model.K,
                            "automaton_sizes": {"lexer_rules": len(bmc_model.lexer.rules), "lexer_states": len(bmc_model.lexer.state_names),
                                                "token_grammar_positions": len(bmc_model.gm.sets), "readme_positions": len(bmc_model.gr.sets)},
                            "witnesses": [w for _, w in bmc_witnesses][:6]})
            bad = c06bmc.self_check(bmc_model, ["/", "/a", "/{a}", "/{a: /x/}", "/{a: b}{c: d}/?{e}", "/a/?b", "", "a", "/{a: /x/,   b: **}",
                                                "/{a:b", "/{a}}", "/{a: /x/b: /y/}", "/{a: b c: d}", "/a b", "/{a:\t/x/}"])
            res["inconclusive"] += bad
        except Unsupported as e:
            res["inconclusive"].append("character-level comparison: %s" % e)

        # ---- samples: solver-drawn strings inside / outside the character-level language
        rng = random.Random(seed)
        alpha = sorted(alphabet(M_char) | alphabet(R_char))
        cdefs = "(define-fun M () RegLan %s)\n(define-fun R () RegLan %s)\n" % (smt(M_char), smt(R_char))
        samples = set()
        want = 330 if tier == "quick" else 700
        tasks = []
        for t in range(want * 2):
            lang = "M" if t % 4 < 2 else "R"
            inside = t % 2 == 0
            c1, c2 = rng.choice(alpha), rng.choice(alpha)
            ln = rng.randint(1, n)
            asserts = ["(str.in_re s %s)" % lang if inside else "(not (str.in_re s %s))" % lang, "(= (str.len s) %d)" % ln,
                       "(str.contains s %s)" % smt_str(c1)]
            if ln > 3:
                asserts.append("(str.contains s %s)" % smt_str(c2))
            if not inside:
                asserts.append("(str.in_re s (re.++ (str.to_re \"/\") (re.* %s)))" % smt(("chars", set(alpha))))
            tasks.append((cdefs, asserts, n))
        from concurrent.futures import ThreadPoolExecutor
        with ThreadPoolExecutor(max_workers=16) as pool:
            for v, w, dt in pool.map(lambda a: query(a[0], a[1], a[2], [], timeout=20), tasks):
                if v == "sat" and w is not None:
                    samples.add(w)
        # concrete instances of the token-level witnesses and of the class differences
        inst = {"i": "a", "g": "x", "w": "\t"}
        for w in tok_witness.values():
            samples.add("".join(inst.get(c, c) for c in w))
        for _, w in bmc_witnesses:
            samples.add(w)
        for c in d_ident_impl + d_ident_doc:
            samples.add("/a" + c + "b")
        for c in d_regex_impl + d_regex_doc:
            samples.add("/{a: /x" + c + "y/}")
        for _ in range(40):
            samples.add("".join(chr(rng.randrange(1, 256)) for _ in range(rng.randint(0, n))))
        samples |= {"/{a: /(b)/}", "/{a: /x(ab|cd)+/}", "/{a: /(x(y))/}-{b: /z+/}", "/{a: /[(]b[)]/}", "/{a: /()/}", "/v{a: /(b|c)*/}.{d}"}
        samples |= {"", "/", "//", "/?", "/a/?b", "/{a}", "/{a: **, capture: 2}", "/{a:   /x/,   b: /y/}", "/{a: /x/b: /y/}", "/{a: b c: d}"}
        samples = sorted(samples)
        # spacing variants of every sample, parsed AFTER the originals by the same parser instance:
        # blanks inserted after / removed behind every ':' and ',' (also inside regex text, where they are significant)
        variants = []
        for smp in samples:
            for v in (re.sub(r"([:,])", r"\1 ", smp), re.sub(r"([:,]) +", r"\1", smp), re.sub(r"([:,])", r"\1  ", smp)):
                if v != smp and v not in variants:
                    variants.append(v)
        samples = samples + [v for v in variants if v not in set(samples)]

        lexer = PyLexer(dump)
        tm = dict(tmodel)
        pm_tok = re.compile(pyre(M_tok), re.S)
        pr = re.compile(pyre(R_char), re.S)

        def model_accepts(s):
            ts = lexer.tokens(s)
            if ts is None:
                return False
            word = "".join("i" if nm == "Ident" else "g" if nm == "Regex" else ("w" if nm == "Whitespace" and v != " " else v) for nm, v in ts)
            return pm_tok.fullmatch(word) is not None

        native = real_parser(samples, tmp)
        agree_model = in_lang = 0
        known_chars = {"ident_impl_only": set(d_ident_impl), "regex_doc_only": set(d_regex_doc), "ident_doc_only": set(d_ident_doc), "regex_impl_only": set(d_regex_impl)}
        for s, nat in zip(samples, native):
            if nat.get("panic"):
                res["violations"].append({"msg": "C06: parsing panics", "input": s, "detail": nat["panic"]})
                continue
            in_m, in_r = model_accepts(s), pr.fullmatch(s) is not None
            acc = nat["accepted"]
            in_lang += acc
            agree_model += acc == in_m
            if acc != in_r:
                res["violations"].append({"msg": "C06: the parser %s a string that is %s the documented grammar" % (
                    "accepts" if acc else "rejects", "outside" if acc else "inside"), "input": s,
                    "class": "accepts-outside" if acc else "rejects-inside"})
            elif acc != in_m:
                res["inconclusive"].append("translation of lexer rules + struct tags disagrees with the real parser on %r (real %s, model %s)" % (s, acc, in_m))
            elif bmc_model is not None and bmc_model.sim_M(s) not in (None, acc):
                res["inconclusive"].append("automaton model of lexer + struct tags disagrees with the real parser on %r (real %s)" % (s, acc))
            elif bmc_model is not None and bmc_model.sim_R(s) not in (None, in_r):
                res["inconclusive"].append("automaton model of the README grammar disagrees with its regular expression on %r" % s)
            if acc:
                if nat["canonical"] != canonical_of(s):
                    res["violations"].append({"msg": "C06: rendering is not the input with spacing after ':' and ',' normalised", "input": s, "detail": nat["canonical"]})
                if not nat["fixpoint"]:
                    res["violations"].append({"msg": "C06: the canonical form does not parse to the same structure / render to itself", "input": s})
                if not nat["mirror"]:
                    res["violations"].append({"msg": "C06: the parsed structure does not mirror the derivation", "input": s})
        for name, w in tok_witness.items():
            res["violations"].append({"msg": "C06: token-level grammars differ (%s)" % name, "input": "".join(inst.get(c, c) for c in w), "class": "token-grammar"})
        res["coverage"] = {"language_queries": queries, "bound_len_tokens": n_tok, "bound_len_chars_samples": n,
                           "samples_run_on_real_parser": len(samples), "samples_accepted": int(in_lang),
                           "model_agrees_with_real_parser_on": int(agree_model),
                           "class_differences": {k: "".join(sorted(v)) for k, v in known_chars.items()},
                           "lexer_states": sorted(dump["states"].keys()), "grammar_structs": sorted(dump["structs"].keys()),
                           "wall_s_language": round(time.time() - t0, 1)}
        return res
    finally:
        import shutil
        shutil.rmtree(tmp, ignore_errors=True)


if __name__ == "__main__":
    import sys
    r = analyse(sys.argv[1] if len(sys.argv) > 1 else "quick", 1)
    print(json.dumps(r))
