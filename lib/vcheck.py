#!/usr/bin/env python3
"""Driver shared by all property checks (DESIGN.md §7).

run_check(spec, tier): builds the overlay, runs bin/symx on the spec's jobs,
replays witnesses and counterexamples on the native build, classifies the
outcome (ok / known finding / violation / inconclusive), writes
evidence/<id>.json and prints the interface lines.
"""
import hashlib
import json
import os
import shutil
import subprocess
import sys
import tempfile
import time

VERIF = os.path.dirname(os.path.dirname(os.path.abspath(__file__)))
REPO = os.environ.get("VERIF_REPO", "/repo")
OUT = os.environ.get("VERIF_OUT", VERIF)  # where evidence/ and replays/ are written (experiments and seeded runs redirect it)
GOENV = dict(os.environ, GOFLAGS="-mod=mod", GOPROXY="off", GOSUMDB="off", GOTOOLCHAIN="local")

PKG_DIR = {
    "flamego": ("", "github.com/flamego/flamego"),
    "route": ("internal/route/", "github.com/flamego/flamego/internal/route"),
    "inject": ("inject/", "github.com/flamego/flamego/inject"),
}


def ensure_engine():
    """(Re)build bin/symx if missing or older than its sources."""
    binp = os.path.join(VERIF, "bin", "symx")
    newest = 0
    for root, _, files in os.walk(os.path.join(VERIF, "engine")):
        for f in files:
            if f.endswith(".go") or f in ("go.mod", "go.sum"):
                newest = max(newest, os.path.getmtime(os.path.join(root, f)))
    gd = os.path.join(VERIF, "bin", "grammardump")
    if os.path.exists(binp) and os.path.getmtime(binp) >= newest and os.path.exists(gd) and os.path.getmtime(gd) >= newest:
        return
    os.makedirs(os.path.join(VERIF, "bin"), exist_ok=True)
    for out, pkg in ((binp, "./cmd/symx"), (gd, "./cmd/grammardump")):
        r = subprocess.run(["go", "build", "-o", out, pkg], cwd=os.path.join(VERIF, "engine"), env=GOENV,
                           capture_output=True, text=True)
        if r.returncode != 0:
            print(r.stdout + r.stderr)
            raise SystemExit(3)


def overlay_maps(files):
    """files: list of 'pkg/name.go' relative to harness/. Returns (symx overlay, go-test overlay) dicts."""
    m = {os.path.join(REPO, "internal/vx/vx.go"): os.path.join(VERIF, "harness/vx/vx.go")}
    for f in files:
        pkg, name = f.split("/")
        sub, _ = PKG_DIR[pkg]
        m[os.path.join(REPO, sub, "zz_verif_" + name)] = os.path.join(VERIF, "harness", pkg, name)
    return m


class Spec:
    def __init__(self, pid, files, jobs, level_text="", assumptions=None, bounds=None, known=None, rule="",
                 post=None, stubs=None):
        self.pid = pid
        self.files = files          # harness files (pkg/name.go)
        self.jobs = jobs            # function(tier, seed) -> list of job dicts (each with 'pkg' short name)
        self.assumptions = assumptions or []
        self.bounds = bounds or (lambda tier: {})
        self.rule = rule
        self.post = post
        self.stubs = stubs or []


def load_known():
    path = os.path.join(VERIF, "known_findings.jsonl")
    out = []
    if os.path.exists(path):
        for line in open(path):
            line = line.strip()
            if line.startswith("{"):
                out.append(json.loads(line))
    return out


def match_known(known, pid, job, viol):
    """A known finding matches by property, harness body, message substring and
    (when given) required params / observation substrings."""
    for k in known:
        if k.get("status", "open") != "open" or k["property"] != pid:
            continue
        m = k["match"]
        if m.get("body") and m["body"] != job["body"]:
            continue
        if m.get("msg") and m["msg"] not in viol["msg"]:
            continue
        ok = True
        for pk, pv in m.get("params", {}).items():
            if str(job.get("params", {}).get(pk)) != str(pv):
                ok = False
        for sub in m.get("obs_contains", []):
            if not any(sub in o for o in (viol.get("native_obs") or viol.get("obs") or [])):
                ok = False
        for sub in m.get("param_contains", {}).items():
            if sub[1] not in str(job.get("params", {}).get(sub[0], "")):
                ok = False
        if ok:
            return k
    return None


def native_replay(files, cases_by_pkg, tmp):
    """Runs `go test -overlay` once per package; returns {case id: result}."""
    results = {}
    for pkg, cases in cases_by_pkg.items():
        if not cases:
            continue
        sub, imp = PKG_DIR[pkg]
        ov = overlay_maps(files)
        ov[os.path.join(REPO, sub, "zz_verif_replay_test.go")] = os.path.join(VERIF, "harness", pkg, "replay_test.go")
        # the repository's own tests are not needed for a replay (and static_test.go embeds ./internal, which
        # would pick up overlay-only files): drop them from this build only.
        for f in os.listdir(os.path.join(REPO, sub)):
            if f.endswith("_test.go"):
                ov[os.path.join(REPO, sub, f)] = ""
        ovp = os.path.join(tmp, "ov_%s.json" % pkg)
        json.dump({"Replace": ov}, open(ovp, "w"))
        inp = os.path.join(tmp, "replay_%s.json" % pkg)
        outp = os.path.join(tmp, "replay_%s.out" % pkg)
        json.dump(cases, open(inp, "w"))
        env = dict(GOENV, VERIF_REPLAY_FILE=inp, VERIF_REPLAY_OUT=outp)
        r = subprocess.run(["go", "test", "-tags", "verif", "-vet=off", "-count=1", "-overlay", ovp, "-run",
                            "^TestVerifReplay$", "-timeout", "20m", "./" + sub], cwd=REPO, env=env,
                           capture_output=True, text=True)
        if r.returncode != 0 or not os.path.exists(outp):
            return None, "native replay build/run failed for %s:\n%s" % (pkg, (r.stdout + r.stderr)[-3000:])
        for line in open(outp):
            o = json.loads(line)
            results[o["id"]] = o
    return results, None


def solver_crosscheck(spec, jobs, ovp, tmp):
    """Re-runs a spread of jobs single-process with the solver transcript recorded and
    replays that transcript on z3-new and cvc5."""
    import crosscheck
    logdir = os.path.join(tmp, "smtlog")
    os.makedirs(logdir, exist_ok=True)
    # a spread of up to six jobs (first, last and evenly in between), each cut at 1500 paths
    picks = sorted({round(k * (len(jobs) - 1) / 5) for k in range(6)}) if len(jobs) > 1 else [0]
    xjobs = []
    for n, k in enumerate(picks):
        j = dict(jobs[k])
        j["id"] = "crosscheck-%d" % n
        j["max_paths"] = 1500
        xjobs.append(j)
    jp = os.path.join(tmp, "xc_jobs.json")
    json.dump({"jobs": xjobs}, open(jp, "w"))
    subprocess.run([os.path.join(VERIF, "bin", "symx"), "-repo", REPO, "-overlay", ovp, "-jobs", jp, "-out",
                    os.path.join(tmp, "xc_out.json"), "-workers", "1"], env=dict(GOENV, SYMX_SMTLOG=logdir, SYMX_NOSHARE=""),
                   capture_output=True, text=True)
    return crosscheck.crosscheck(logdir)


def short_pkg(job):
    return job["pkg_short"]


def run_check(spec, tier, argv=None):
    t0 = time.time()
    seed = int(os.environ.get("VERIF_SEED", "1"))
    tier = os.environ.get("VERIF_TIER", tier)
    ensure_engine()
    tmp = tempfile.mkdtemp(prefix="verif_%s_" % spec.pid)
    try:
        return _run(spec, tier, seed, tmp, t0)
    finally:
        shutil.rmtree(tmp, ignore_errors=True)


def _run(spec, tier, seed, tmp, t0):
    pid = spec.pid
    jobs0 = spec.jobs(tier, seed)
    jobs = []
    for n, j in enumerate(jobs0):
        j.setdefault("id", "%s-%d" % (pid, n))
        ns = int(j.pop("shards", 1))
        if ns <= 1:
            jobs.append(j)
            continue
        for k in range(ns):
            c = dict(j)
            c["id"] = "%s#%d" % (j["id"], k)
            c["base"] = j["id"]
            c["shard"], c["shards"] = k, ns
            jobs.append(c)
    for n, j in enumerate(jobs):
        j["pkg"] = PKG_DIR[j["pkg_short"]][1]
        j["params"] = {k: str(v) for k, v in j.get("params", {}).items()}
        j.setdefault("timeout_ms", 10000 if tier == "quick" else 60000)
    jobmap = {j["id"]: j for j in jobs}
    ov = overlay_maps(spec.files)
    ovp = os.path.join(tmp, "overlay.json")
    json.dump(ov, open(ovp, "w"))
    jp = os.path.join(tmp, "jobs.json")
    json.dump({"jobs": jobs}, open(jp, "w"))
    outp = os.path.join(tmp, "out.json")
    workers = int(os.environ.get("VERIF_WORKERS", "16"))
    r = subprocess.run([os.path.join(VERIF, "bin", "symx"), "-repo", REPO, "-overlay", ovp, "-jobs", jp, "-out", outp,
                        "-workers", str(workers), "-deadline", os.environ.get("VERIF_DEADLINE", "900" if tier == "quick" else "7200")],
                       env=GOENV, capture_output=True, text=True)
    if r.returncode != 0:
        return finish(spec, tier, seed, t0, inconclusive=["symx failed: " + (r.stderr or r.stdout)[-3000:]])
    out = json.load(open(outp))
    results = out["results"]
    if os.environ.get("VERIF_KEEP"):
        shutil.copy(outp, os.environ["VERIF_KEEP"])

    inconclusive = []
    if out.get("expired"):
        inconclusive.append("wall-clock limit reached: unfinished jobs were abandoned (nothing is claimed for them)")
    for res in results:
        if res.get("engine_error"):
            inconclusive.append("%s: engine error: %s" % (res["id"], res["engine_error"]))
        if res.get("setup_error"):
            inconclusive.append("%s: setup failed: %s" % (res["id"], res["setup_error"]))
        for inc in res.get("inconclusive") or []:
            inconclusive.append("%s: %s" % (res["id"], inc))

    # ---- native replay of witnesses and counterexamples
    cases = {}
    wit_index = []
    viol_index = []
    for res in results:
        job = jobmap[res["id"]]
        for n, w in enumerate(res.get("witnesses") or []):
            cid = "%s/w%d" % (res["id"], n)
            cases.setdefault(job["pkg_short"], []).append({"id": cid, "setup": job.get("setup", ""), "body": job["body"],
                                                          "params": job["params"], "replay": w["replay"]})
            wit_index.append((cid, res, w))
        for n, v in enumerate(res.get("violations") or []):
            if v.get("replay") is None:
                continue
            cid = "%s/v%d" % (res["id"], n)
            cases.setdefault(job["pkg_short"], []).append({"id": cid, "setup": job.get("setup", ""), "body": job["body"],
                                                          "params": job["params"], "replay": v["replay"]})
            viol_index.append((cid, res, v))
    native, err = native_replay(spec.files, cases, tmp)
    if err:
        return finish(spec, tier, seed, t0, results=results, out=out, inconclusive=inconclusive + [err])

    validated = 0
    mismatches = []
    for cid, res, w in wit_index:
        nat = native.get(cid)
        if nat is None or nat.get("missing"):
            mismatches.append("%s: no native result" % cid)
            continue
        if nat.get("assume_failed"):
            mismatches.append("%s: native run rejected the witness (assumption failed)" % cid)
            continue
        sym_panic = bool(w.get("panic"))
        nat_panic = bool(nat.get("panic"))
        if nat.get("failures") and not w.get("violating"):
            mismatches.append("%s: native run reports failures the engine did not predict: %s" % (cid, nat["failures"][:3]))
        elif (nat.get("obs") or []) != (w.get("obs") or []) or sym_panic != nat_panic:
            mismatches.append("%s: engine predicted obs=%s panic=%r, native gave obs=%s panic=%r" % (
                cid, w.get("obs"), w.get("panic"), nat.get("obs"), nat.get("panic")))
        else:
            validated += 1
    if mismatches:
        inconclusive += ["encoder validation mismatch: " + m for m in mismatches[:5]]

    known = load_known()
    confirmed = []
    unconfirmed = []
    known_seen = {}
    for cid, res, v in viol_index:
        nat = native.get(cid) or {}
        job = jobmap[res["id"]]
        reproduced = False
        if v["kind"] == "assert":
            reproduced = any(v["msg"] == f for f in nat.get("failures") or [])
        elif v["kind"] == "panic":
            reproduced = bool(nat.get("panic"))
        elif v["kind"] == "store":
            reproduced = True  # triaged by reading (no native observable), see DESIGN C05
        v["native_obs"] = nat.get("obs")
        v["native_failures"] = nat.get("failures")
        v["native_panic"] = nat.get("panic")
        v["job"] = {"id": res["id"], "body": job["body"], "params": job["params"]}
        if not reproduced:
            unconfirmed.append(v)
            continue
        k = match_known(known, pid, job, v)
        if k is not None:
            known_seen.setdefault(k["id"], {"k": k, "n": 0})["n"] += 1
        else:
            confirmed.append(v)
    if unconfirmed:
        inconclusive.append("%d counterexample(s) did not reproduce natively (encoder or stub suspect), first: %s" % (
            len(unconfirmed), json.dumps(unconfirmed[0])[:600]))

    xc = None
    if tier == "thorough" or os.environ.get("VERIF_CROSSCHECK"):
        xc = solver_crosscheck(spec, jobs, ovp, tmp)
        for name, r in (xc.get("others") or {}).items():
            if r.get("disagreements"):
                inconclusive.append("solver disagreement: %s differs from z3 4.8.12 at check-sat #%s of the replayed transcript" % (name, r.get("first_disagreement_at")))
    extra = None
    if spec.post is not None:
        extra = spec.post(tier, seed)
        inconclusive += extra.get("inconclusive", [])
        for v in extra.get("violations", []):
            vv = {"msg": v["msg"], "kind": "language", "replay": None, "obs": [repr(v.get("input"))],
                  "native_obs": [repr(v.get("input")), v.get("detail", "")],
                  "job": {"id": "post", "body": "post:" + v.get("class", ""), "params": {"input": repr(v.get("input"))}}}
            k = match_known(known, pid, {"body": vv["job"]["body"], "params": vv["job"]["params"]}, vv)
            if k is not None:
                known_seen.setdefault(k["id"], {"k": k, "n": 0})["n"] += 1
            else:
                confirmed.append(vv)
    return finish(spec, tier, seed, t0, results=results, out=out, inconclusive=inconclusive, validated=validated,
                  confirmed=confirmed, known_seen=known_seen, wit_total=len(wit_index), extra=extra, xc=xc)


def finish(spec, tier, seed, t0, results=None, out=None, inconclusive=None, validated=0, confirmed=None,
           known_seen=None, wit_total=0, extra=None, xc=None):
    pid = spec.pid
    results = results or []
    confirmed = confirmed or []
    known_seen = known_seen or {}
    inconclusive = inconclusive or []
    paths = sum(r.get("paths", 0) for r in results)
    decisions = sum(r.get("decisions", 0) for r in results)
    asserts = sum(r.get("asserts", 0) for r in results)
    trivial = sum(r.get("trivial_asserts", 0) for r in results)
    fns, exts = set(), set()
    uninit = set()
    storemon = {}
    bystatus = {}
    solver = {"queries": 0, "sat": 0, "unsat": 0, "unknown": 0, "errors": 0, "wall_s": 0.0, "max_query_ms": 0.0}
    samples = []
    obs_classes = 0
    reached = set()
    for r in results:
        fns.update(r.get("fns") or [])
        uninit.update(r.get("uninit_globals") or [])
        for k, v in (r.get("storemon") or {}).items():
            storemon[k] = max(storemon.get(k, 0), v) if k == "shared_regions_at_mark" else storemon.get(k, 0) + v
        exts.update(r.get("externals") or [])
        reached.update(r.get("reached") or [])
        for k, v in (r.get("by_status") or {}).items():
            bystatus[k] = bystatus.get(k, 0) + v
        s = r.get("solver") or {}
        solver["queries"] += s.get("Queries", 0)
        solver["sat"] += s.get("Sat", 0)
        solver["unsat"] += s.get("Unsat", 0)
        solver["unknown"] += s.get("Unknown", 0)
        solver["errors"] += s.get("Errors", 0)
        solver["wall_s"] += s.get("WallNS", 0) / 1e9
        solver["max_query_ms"] = max(solver["max_query_ms"], s.get("MaxNS", 0) / 1e6)
        obs_classes += r.get("obs_classes", 0)
        for w in (r.get("witnesses") or [])[:2]:
            if len(samples) < 12:
                samples.append({"job": r["id"], "params": r.get("params"), "harness": r.get("body"),
                                "witness_input": w["replay"][:40], "observed": w.get("obs"), "panic": w.get("panic", "")})
    solver["wall_s"] = round(solver["wall_s"], 3)
    flamego_fns = sorted(f for f in fns if "flamego/flamego" in f and "zz_verif" not in f and "/vx." not in f and ".VH_" not in f and ".v" not in f.split("flamego")[-1][:3])
    ev = {
        "property_id": pid,
        "tier": tier,
        "seed": seed,
        "level": "model_checking",
        "coverage": {
            "states": max(paths, 0),
            "transitions": max(decisions, 0),
            "traces_validated_against_impl": validated,
            "samples": samples or [{"note": "no completed path"}],
            "explanation": "bounded symbolic execution of the real go/ssa of /repo's working tree; states = feasible "
                           "paths explored (each decided feasible by the SMT solver), transitions = symbolic branch "
                           "decisions; obligations = assertion instances met on those paths: one whose condition is still "
                           "symbolic there is decided by its own solver query over all inputs of the path, one that the "
                           "branching before it has already made constant holds for all inputs of that (solver-decided) path",
            "jobs": len(results),
            "paths_by_status": bystatus,
            "obligations": asserts + trivial,
            "obligations_decided_by_their_own_solver_query": asserts,
            "obligations_constant_true_on_their_path": trivial,
            "discharged": max(0, asserts + trivial - sum(1 for v in confirmed if v.get("kind") == "assert")),
            "witnesses_replayed": wit_total,
            "distinct_outcome_classes": obs_classes,
            "functions_encoded": flamego_fns,
            "stdlib_and_dep_functions_executed_from_ssa": len([f for f in fns if "flamego/flamego" not in f]),
            "intrinsics_and_stubs_called": sorted(exts),
            "reach_tags": sorted(reached),
            "store_monitor": storemon,
            "globals_read_from_packages_whose_init_is_not_run": sorted(uninit),
            "bounds": spec.bounds(tier),
            "solver": dict(solver, name="z3 4.8.12 (-in, incremental push/pop)"),
            "inconclusive": inconclusive[:20],
            "engine_notes": sorted({"%s: %s" % (r["id"], n) for r in results for n in (r.get("notes") or [])})[:20],
            "known_findings_seen": sorted(known_seen.keys()),
            "rule": spec.rule,
        },
        "assumptions": spec.assumptions,
        "wall_s": round(time.time() - t0, 2),
        "violations": len(confirmed),
    }
    if xc:
        ev["coverage"]["solver_crosscheck"] = xc
    if extra and extra.get("coverage"):
        ev["coverage"]["language_comparison"] = extra["coverage"]
        ev["coverage"]["traces_validated_against_impl"] += extra["coverage"].get("samples_run_on_real_parser", 0)
    if ev["coverage"]["states"] < 1:
        ev["coverage"]["states"] = 1
        ev["coverage"]["transitions"] = 1
    if ev["coverage"]["transitions"] < 1:
        ev["coverage"]["transitions"] = 1
    os.makedirs(os.path.join(OUT, "evidence"), exist_ok=True)
    json.dump(ev, open(os.path.join(OUT, "evidence", pid + ".json"), "w"), indent=1)

    for kid, rec in sorted(known_seen.items()):
        print("KNOWN-FINDING: property=%s %s (%s; %d counterexample(s) this run)" % (pid, rec["k"]["what"], kid, rec["n"]))
    print("%s %s: %d jobs, %d paths %s, %d decisions, %d obligations (%d by their own solver query), %d solver queries (%.1fs solver), "
          "%d/%d witnesses validated natively, %.1fs" % (pid, tier, len(results), paths, json.dumps(bystatus), decisions,
                                                       asserts + trivial, asserts, solver["queries"], solver["wall_s"], validated, wit_total,
                                                       time.time() - t0))
    if confirmed:
        os.makedirs(os.path.join(OUT, "replays"), exist_ok=True)
        seen = set()
        for v in confirmed:
            key = v["msg"] + "|" + v["job"]["body"] + "|" + json.dumps(v["job"]["params"], sort_keys=True)
            if key in seen or len(seen) >= 12:
                continue
            seen.add(key)
            h = hashlib.sha1(json.dumps(v, sort_keys=True).encode()).hexdigest()[:10]
            path = os.path.join(OUT, "replays", "%s-%s.json" % (pid, h))
            json.dump({"property": pid, "files": spec.files, "pkg_short": [j for j in [v["job"]]][0].get("pkg_short", ""),
                       "violation": v}, open(path, "w"), indent=1)
            print("VIOLATION property=%s replay=%s" % (pid, path))
            print("  clause: %s\n  harness: %s params=%s\n  native observations: %s" % (
                v["msg"], v["job"]["body"], v["job"]["params"], v.get("native_obs")))
        return 1
    if inconclusive:
        for inc in inconclusive[:10]:
            print("INCONCLUSIVE property=%s reason=%s" % (pid, inc.replace("\n", " ")[:1500]))
        return 2
    return 0
