#!/bin/bash
# Re-runs every stored seeded change against its property's check (quick tier), sequentially on /repo.
cd /verif
for d in seeded/C*/; do
  n=$(basename $d)
  VERIF_DEADLINE=${VERIF_DEADLINE:-480} python3 lib/seeded.py run $n 2>&1 | tail -1
done
git -C /repo status --short
