#!/usr/bin/env python3
"""Regenerates /verif/MANIFEST.json from the table below (keeps it valid and current)."""
import json, os
VERIF = os.path.dirname(os.path.dirname(os.path.abspath(__file__)))
props = [json.loads(l) for l in open(os.path.join(VERIF, "properties.jsonl"))]

TECH = "bounded symbolic execution of /repo's go/ssa (symx) + SMT (z3 -in); counterexamples and witnesses replayed on the native build"
TRUST = ("Trusted: symx interpreter (fork of x/tools go/ssa/interp v0.29.0), its intrinsics/stubs as listed in the evidence file, z3 4.8.12. "
         "Nothing is claimed outside the stated bounds; exit 2 (INCONCLUSIVE) is never success.")

CLAIMS = {
    "C01": ("Every request path up to the bound (all 256 byte values) against curated and seeded route sets: the route Tree.Match returns equals the one a priority oracle written from the statement selects (one SMT query per explored path, both directions of the iff).", "§3/C01"),
    "C02": ("On the same symbolic runs as C01, the parameter map of every dispatched request is asserted to be exactly what the matched route's pattern captured, percent-decoded once (reference decoder; regex membership by an independent rune-level DP), plus the reserved `route` parameter at ServeHTTP level (C07/C09 runs).", "§3/C02"),
    "C07": ("router.ServeHTTP and Tree.Match executed with symbolic method and path: every Go run-time panic is an assertion, exactly one chain is observed per request, it is the not-found chain iff the method is unknown or no route admits, and a repeated request (also under explored map orders) gives the same outcome.", "§3/C07"),
    "C09": ("Real Headers()/SetHeaderMatcher/HeaderMatcher.Match/ServeHTTP with symbolic header presence and values against C01's oracle gated per route in every form and method.", "§3/C09"),
    "C10": ("Differential in one symbolic run: ServeHTTP (static shortcut) vs routeTrees[method].Match for the same request, after fixed registration/Headers() histories.", "§3/C10"),
    "C03": ("A real Flame instance (Use/Group/Get/Action/ServeHTTP, createContext, run, Next, inject, default return handler) runs chains of up to 4 (quick) / 6 (thorough) handlers whose behaviour words (write before/after, 0-2 Next calls, returned body, cancellation) are symbolic choices (bodies written with Write or streamed with io.Copy); the recorded enter/exit event trace must equal that of a reference model written from the statement.", "§3/C03"),
    "C04": ("Real inject (Map/MapTo/Set/SetParent/Value/Invoke/fastInvoke/callInvoke/Apply) over a declared type universe with symbolic registrations in 1-3 nested scopes, all explored map orders, against a reference resolver (nearest scope, exact type, then any implementor of that scope); error-naming, run-exactly-once, unchanged results, fast vs reflective.", "§3/C04"),
    "C12": ("Leaf.URLPath / router.URLPath / Context.URLPath (under several sets of own request parameters) with symbolic values (any bytes), symbolic presence and withOptional, real strings.Replacer from stdlib SSA, against the substitution the statement describes; inverse clause asserted on symbolic routing runs; the demanded panics checked.", "§3/C12"),
    "C14": ("Handlers of every supported return shape with symbolic strings/bytes/status/nil-ness run through a real Flame; status line, body bytes and chain continuation are asserted against the statement's table; reflective and teapot fast path; registered ReturnHandler replaces the table.", "§3/C14"),
    "C15": ("Real Recovery() closure in chains with symbolic panic kind (string - also empty or ending in a line break -, error - also with an empty message -, two run-time errors, struct, failed dependency resolution), phase, earlier status, environment, nesting style: nothing escapes ServeHTTP, status/body rules, middleware in front completes, a later request is served normally.", "§3/C15"),
    "C05": ("REDUCED CLAIM - interleavings are not explored. A sequential sufficient condition is decided: during a symbolic request through a real application with routes of every kind (one of them panics into Recovery), every store the interpreter executes is checked against the memory reachable from package globals when the request starts; a store into that shared memory outside sync.Once / mutex / atomic is a violation. The same request served twice must give the same response.", "§3/C05, §4"),
    "C06": ("REDUCED CLAIM - participle is not executed symbolically. (a) Rendering clause on the real code with symbolic token contents; on nine shapes and on every segment structure with up to 2/3 elements; (b) the solver (regex theory) decides equality of the lexer's character classes and of the token-level grammar (struct tags) with the README EBNF, all re-extracted from source each run; (b') for every byte string up to 16 (quick) / 22 (thorough) bytes the lexer's state machine as written (states, rule order, push/pop) composed with the struct-tag grammar accepts iff the README grammar does - two QF_BV queries per length over symbolic bytes; (c) every witness and >=500 solver-drawn strings are confirmed on the real parser (no panic, accepted iff documented, canonical form a fixpoint, AST mirrors the derivation).", "§3/C06, §4"),
    "C08": ("Real AddRoute (and everything below it, incl. regexp.Compile) on registration histories of up to 3 routes (1-3 segments, some 4-6) whose every identifier is a symbolic byte, against a mustReject predicate written from the statement: error iff ill-formed, never a crash; at router level a symbolic method string and per-method duplicates.", "§3/C08"),
    "C11": ("A registration program template (3 nesting levels; Group, Get/Post/Delete, Routes in both spellings, Any, AutoHead toggles, Combo inside and outside groups and across groups, empty route paths, an optional route shadowing Any) with symbolic statement guards, list lengths and slice capacities runs on the real router; afterwards every (method, path) is requested and the handler list handed to the context is compared with the flat expansion.", "§3/C11"),
    "C16": ("Real Static() closure with symbolic URL path, method and file-system answers (error/file/directory, failing Stat): only GET/HEAD, only under the prefix at a segment boundary, only the two allowed names are opened, silence when it cannot serve, 302 for slash-less directories, 304 on ETag match; plus the http.Dir containment lemma executed from stdlib SSA with os.Open intercepted.", "§3/C16"),
    "C17": ("Real Renderer/render.* with symbolic status, charset, indentation and body bytes: status, Content-Type before the status line, verbatim bytes; JSON values incl. non-compact and nil json.RawMessage; encoders stubbed by contract (reduced claim).", "§3/C17"),
    "C18": ("Real accessors with symbolic query values/defaults/presence; typed accessors over a menu of hostile numerals; cookie round trip as solver-decided lemmas over all byte values on the real net/url code, with net/http's cookie writer/reader assumed identity on QueryEscape's alphabet.", "§3/C18"),
    "C13": ("Every k-step operation sequence (k<=4 quick, <=5 thorough) on the real responseWriter with symbolic status code, method bytes and write lengths (also with before-functions that register further ones while they run), plus a one-step inductive lemma from an arbitrary invariant-satisfying state (sequences of any length modulo the invariant).", "§3/C13"),
}

TECH_BY = {
    "C06": TECH + "; plus SMT (z3 QF_BV, z3-new second opinion) bounded equivalence of two automata extracted from source (lexer state machine + struct-tag grammar vs README grammar) and z3-new regex-theory queries; witnesses and solver-drawn samples run on the real parser",
}

checks = []
for p in props:
    pid = p["id"]
    if pid not in CLAIMS:
        continue
    text, ref = CLAIMS[pid]
    checks.append({
        "property_id": pid,
        "quick_cmd": "./check %s quick" % pid,
        "thorough_cmd": "./check %s thorough" % pid,
        "evidence_file": "/verif/evidence/%s.json" % pid,
        "replay_cmd_template": "./check %s --replay {path}" % pid,
        "engine": "symx",
        "level_claimed": {"category": "model_checking", "text": text + " Bounded: holds for every input within the bounds recorded in the evidence file.", "design_ref": "DESIGN.md " + ref},
        "level_note": TRUST,
        "technique": TECH_BY.get(pid, TECH),
    })
NA_REASON = {}
na = [{"property_id": p["id"], "reason": NA_REASON.get(p["id"], "check under construction in this session (engine exists; harness not yet registered)")}
      for p in props if p["id"] not in CLAIMS]
m = {
    "version": 1,
    "setup_cmd": "cd /verif/engine && GOFLAGS=-mod=mod GOPROXY=off GOSUMDB=off GOTOOLCHAIN=local go build -o /verif/bin/symx ./cmd/symx && GOFLAGS=-mod=mod GOPROXY=off GOSUMDB=off GOTOOLCHAIN=local go build -o /verif/bin/grammardump ./cmd/grammardump",
    "hooks": {"guard": "verif",
              "enable": "harness files under /verif/harness carry //go:build verif and are injected with packages.Config.Overlay (symbolic run) and go test -overlay -tags verif (native replay); no hook commit in /repo",
              "baseline_off_cmd": "cd /repo && go test -vet=off -count=1 -json ./...", "source_commits": [], "add_only": True},
    "engines": [{"name": "symx", "path": "/verif/engine", "serves_properties": sorted(CLAIMS),
                 "kind_free_text": "symbolic interpreter for go/ssa (fork of golang.org/x/tools/go/ssa/interp v0.29.0): symbolic ints/bools/string bytes as SMT bit-vector terms, replay-based path exploration with one live z3 per worker process, dynamic work donation over 16 processes, native replay of every reported model"}],
    "checks": checks,
    "not_applicable": na,
    "notes": "See DESIGN.md. Exit codes: 0 held within bounds, 1 VIOLATION (natively reproduced, not a listed known finding), 2 INCONCLUSIVE (never presented as success). known_findings.jsonl lists open findings and fixed: entries.",
}
json.dump(m, open(os.path.join(VERIF, "MANIFEST.json"), "w"), indent=1)
print("claimed:", sorted(CLAIMS), "not_applicable:", [x["property_id"] for x in na])
