package symx

// Intrinsics: the harness vocabulary (package vx), symbolic-aware leaf
// primitives of the standard library, and environment stubs. Every entry
// here is part of the trusted base and is reported in evidence by name
// whenever a run calls it.

import (
	"fmt"
	"go/token"
	"go/types"
	"net/http"
	"net/textproto"
	"runtime"
	"sort"
	"strconv"
	"strings"

	"golang.org/x/tools/go/ssa"
)

const vxPath = "github.com/flamego/flamego/internal/vx"

func init() {
	for k, v := range map[string]externalFn{
		// ---- harness vocabulary
		vxPath + ".Byte":      extVxByte,
		vxPath + ".Bool":      extVxBool,
		vxPath + ".Int":       extVxInt,
		vxPath + ".String":    extVxString,
		vxPath + ".StringN":   extVxStringN,
		vxPath + ".Choice":    extVxChoice,
		vxPath + ".Assume":    extVxAssume,
		vxPath + ".Assert":    extVxAssert,
		vxPath + ".Observe":   extVxObserve,
		vxPath + ".Reach":     extVxReach,
		vxPath + ".Param":     extVxParam,
		vxPath + ".ParamInt":  extVxParamInt,
		vxPath + ".MapOrders": extVxMapOrders,
		vxPath + ".PoolReuse": func(fr *frame, args []value) value {
			fr.i.ex.PoolReuse = args[0].(bool)
			if !fr.i.ex.PoolReuse {
				fr.i.pools = map[*value][]value{}
			}
			return nil
		},
		vxPath + ".Symbolic":  func(fr *frame, args []value) value { return true },
		vxPath + ".Ite":       extVxIte,
		vxPath + ".And":       func(fr *frame, args []value) value { return boolVal(tAnd(toTerm(args[0]), toTerm(args[1]))) },
		vxPath + ".Or":        func(fr *frame, args []value) value { return boolVal(tOr(toTerm(args[0]), toTerm(args[1]))) },
		vxPath + ".Not":       func(fr *frame, args []value) value { return boolVal(tNot(toTerm(args[0]))) },
		vxPath + ".EpochMark": extVxEpochMark,
		vxPath + ".Monitor":   extVxMonitor,

		// ---- sync
		"(*sync.Once).Do":                   extOnceDo,
		"(*sync.Mutex).Lock":                extLock,
		"(*sync.Mutex).Unlock":              extUnlock,
		"(*sync.Mutex).TryLock":             func(fr *frame, args []value) value { return true },
		"(*sync.RWMutex).Lock":              extLock,
		"(*sync.RWMutex).Unlock":            extUnlock,
		"(*sync.RWMutex).RLock":             extNop,
		"(*sync.RWMutex).RUnlock":           extNop,
		"(*sync.Pool).Get":                  extPoolGet,
		"(*sync.Pool).Put":                  extPoolPut,
		"sync/atomic.LoadInt32":             extAtomicLoad,
		"sync/atomic.LoadUint32":            extAtomicLoad,
		"sync/atomic.LoadInt64":             extAtomicLoad,
		"sync/atomic.LoadUint64":            extAtomicLoad,
		"sync/atomic.LoadPointer":           extAtomicLoad,
		"sync/atomic.LoadUintptr":           extAtomicLoad,
		"sync/atomic.StoreInt32":            extAtomicStore,
		"sync/atomic.StoreUint32":           extAtomicStore,
		"sync/atomic.StoreInt64":            extAtomicStore,
		"sync/atomic.StoreUint64":           extAtomicStore,
		"sync/atomic.StoreUintptr":          extAtomicStore,
		"sync/atomic.StorePointer":          extAtomicStore,
		"sync/atomic.SwapPointer":           extAtomicSwap,
		"sync/atomic.CompareAndSwapPointer": extAtomicCASPointer,
		"sync/atomic.AddInt32":              extAtomicAdd,
		"sync/atomic.AddUint32":             extAtomicAdd,
		"sync/atomic.AddInt64":              extAtomicAdd,
		"sync/atomic.AddUint64":             extAtomicAdd,
		"sync/atomic.CompareAndSwapInt32":   extAtomicCAS,
		"sync/atomic.CompareAndSwapUint32":  extAtomicCAS,
		"sync/atomic.CompareAndSwapInt64":   extAtomicCAS,
		"sync/atomic.CompareAndSwapUint64":  extAtomicCAS,
		"(*sync/atomic.Value).Store":        extAtomicValueStore,
		"(*sync/atomic.Value).Load":         extAtomicValueLoad,

		// ---- strings / bytes / bytealg
		"strings.Index":                        extStringsIndex,
		"strings.IndexByte":                    extStringsIndexByte,
		"strings.Count":                        extStringsCount,
		"strings.LastIndex":                    extStringsLastIndex,
		"strings.LastIndexByte":                extStringsLastIndexByte,
		"internal/bytealg.IndexByteString":     extStringsIndexByte,
		"internal/bytealg.IndexString":         extStringsIndex,
		"internal/bytealg.CountString":         extCountByteString,
		"internal/bytealg.IndexByte":           extBytesIndexByte,
		"internal/bytealg.Index":               extBytesIndex,
		"internal/bytealg.Count":               extBytesCountByte,
		"internal/bytealg.Equal":               extBytesEqual,
		"internal/bytealg.MakeNoZero":          extMakeNoZero,
		"internal/bytealg.LastIndexByteString": extStringsLastIndexByte,
		"internal/stringslite.Index":           extStringsIndex,
		"internal/stringslite.IndexByte":       extStringsIndexByte,
		"bytes.Equal":                          extBytesEqual,
		"bytes.IndexByte":                      extBytesIndexByte,
		"bytes.Index":                          extBytesIndex,
		"(*strings.Builder).copyCheck":         extNop,
		"(*strings.Builder).String":            extBuilderString,
		"strings.EqualFold":                    extStringsEqualFoldConcrete,
		"strings.ToLower":                      extStringsToLowerConcrete,
		"strings.Replace":                      nil, // run from SSA
		"unicode/utf8.DecodeRuneInString":      extDecodeRuneInString,
		"unicode/utf8.DecodeRune":              extDecodeRune,
		"unsafe.String":                        nil,

		// ---- fmt / errors / runtime / os
		"fmt.Sprintf":                   extSprintf,
		"fmt.Errorf":                    extErrorf,
		"fmt.Sprint":                    extSprint,
		"fmt.Fprintf":                   extFprintf,
		"github.com/pkg/errors.callers": func(fr *frame, args []value) value { return (*value)(nil) },
		"runtime.Callers":               func(fr *frame, args []value) value { return 0 },
		"runtime.Caller":                extRuntimeCaller,
		"runtime.FuncForPC":             func(fr *frame, args []value) value { return (*value)(nil) },
		"(*runtime.Func).Name":          func(fr *frame, args []value) value { return "func" },
		"os.ReadFile":                   extOsReadFile,
		"strconv.Atoi":                  extStrconvAtoi,
		"strconv.Itoa":                  extStrconvItoa,
		"strconv.ParseInt":              extStrconvParseInt,
		"strconv.ParseBool":             extStrconvParseBool,
		"strconv.ParseFloat":            extStrconvParseFloat,
		"strconv.Quote":                 func(fr *frame, args []value) value { return strconv.Quote(fr.i.concString(args[0])) },

		// ---- net/http leaves
		"net/http.StatusText":      func(fr *frame, args []value) value { return http.StatusText(int(fr.i.concInt(args[0]))) },
		"(net/http.Header).Get":    extHeaderGet,
		"(net/http.Header).Set":    extHeaderSet,
		"(net/http.Header).Add":    extHeaderAdd,
		"(net/http.Header).Del":    extHeaderDel,
		"(net/http.Header).Values": extHeaderValues,
		"net/textproto.CanonicalMIMEHeaderKey": func(fr *frame, args []value) value {
			return textproto.CanonicalMIMEHeaderKey(fr.i.concString(args[0]))
		},
		"net/http.Error":    extHTTPError,
		"net/http.NotFound": extHTTPNotFound,

		// ---- route parser: participle is reflection-driven; inside the interpreter the
		// harness parser (validated natively against the real one on every run) stands in.
		"github.com/flamego/flamego/internal/route.NewParser":       extRouteNewParser,
		"(*github.com/flamego/flamego/internal/route.Parser).Parse": extRouteParse,

		// ---- logging (formatting and logging are never the subject)
		"github.com/charmbracelet/log.NewWithOptions":        func(fr *frame, args []value) value { return (*value)(nil) },
		"(*github.com/charmbracelet/log.Logger).StandardLog": func(fr *frame, args []value) value { return (*value)(nil) },
		"(*github.com/charmbracelet/log.Logger).WithPrefix":  func(fr *frame, args []value) value { return args[0] },
		"(*github.com/charmbracelet/log.Logger).Error":       extNop,
		"(*github.com/charmbracelet/log.Logger).Print":       extNop,
		"(*github.com/charmbracelet/log.Logger).Info":        extNop,
		"(*github.com/charmbracelet/log.Logger).Debug":       extNop,
		"(*github.com/charmbracelet/log.Logger).Warn":        extNop,
	} {
		if v == nil {
			delete(externals, k)
			continue
		}
		externals[k] = v
	}
}

func extNop(fr *frame, args []value) value { return nil }

// ---------------------------------------------------------------------------
// vx

func extVxByte(fr *frame, args []value) value {
	return symVal{fr.i.ex.freshVar(8, "byte"), types.Uint8}
}

func extVxBool(fr *frame, args []value) value {
	v := fr.i.ex.freshVar(8, "bool")
	// encoded as a byte constrained to {0,1} so that the replay vector is uniform
	fr.i.ex.addPC(tCmp(OpUle, v, tConst(8, 1)))
	return symVal{tEq(v, tConst(8, 1)), types.Bool}
}

// Int(lo, hi) returns a symbolic int in [lo, hi].
func extVxInt(fr *frame, args []value) value {
	lo, hi := asInt64(args[0]), asInt64(args[1])
	v := fr.i.ex.freshVar(64, "int")
	fr.i.ex.addPC(tAnd(tCmp(OpSle, tConst(64, uint64(lo)), v), tCmp(OpSle, v, tConst(64, uint64(hi)))))
	if lo > hi {
		panic(pathEnd{"assume"})
	}
	return symVal{v, types.Int}
}

// String(maxLen): symbolic length in [0,maxLen] (forked), symbolic bytes.
func extVxString(fr *frame, args []value) value {
	maxLen := asInt64(args[0])
	lv := fr.i.ex.freshVar(64, "len")
	fr.i.ex.addPC(tCmp(OpUle, lv, tConst(64, uint64(maxLen))))
	n := int(fr.i.ex.Concretize(lv))
	b := make([]value, n)
	for k := range b {
		b[k] = symVal{fr.i.ex.freshVar(8, "sbyte"), types.Uint8}
	}
	return mkString(b)
}

func extVxStringN(fr *frame, args []value) value {
	n := int(asInt64(args[0]))
	b := make([]value, n)
	for k := range b {
		b[k] = symVal{fr.i.ex.freshVar(8, "sbyte"), types.Uint8}
	}
	return mkString(b)
}

// Choice(n): concrete n-ary fork; recorded in the replay vector too.
func extVxChoice(fr *frame, args []value) value {
	n := int(asInt64(args[0]))
	v := fr.i.ex.freshVar(64, "choice")
	k := fr.i.ex.Choice(n)
	fr.i.ex.addPC(tEq(v, tConst(64, uint64(k))))
	return k
}

func extVxAssume(fr *frame, args []value) value {
	fr.i.ex.Assume(toTerm(args[0]))
	return nil
}

func extVxAssert(fr *frame, args []value) value {
	pos := ""
	if fr.caller != nil {
		pos = fr.caller.fn.String()
	}
	fr.i.ex.Assert(toTerm(args[0]), fr.i.concString(args[1]), pos)
	return nil
}

func extVxObserve(fr *frame, args []value) value {
	tag := fr.i.concString(args[0])
	var vals []value
	for _, a := range args[1].([]value) {
		vals = append(vals, snapshot(a.(iface).v))
	}
	fr.i.ex.obs = append(fr.i.ex.obs, obsRec{tag, vals})
	return nil
}

// snapshot copies the mutable top-level containers of an observed value.
func snapshot(v value) value {
	switch v := v.(type) {
	case []value:
		out := make([]value, len(v))
		for k, x := range v {
			out[k] = snapshot(x)
		}
		if v == nil {
			return []value(nil)
		}
		return out
	case *omap:
		if v == nil {
			return v
		}
		c := &omap{keyType: v.keyType}
		for _, e := range v.entries {
			c.entries = append(c.entries, oentry{e.k, snapshot(e.v)})
		}
		return c
	}
	return v
}

func extVxReach(fr *frame, args []value) value {
	fr.i.ex.reached[fr.i.concString(args[0])] = true
	return nil
}

func extVxParam(fr *frame, args []value) value {
	return fr.i.ex.Params[fr.i.concString(args[0])]
}

func extVxParamInt(fr *frame, args []value) value {
	s := fr.i.ex.Params[fr.i.concString(args[0])]
	n, _ := strconv.Atoi(s)
	return n
}

func extVxMapOrders(fr *frame, args []value) value {
	fr.i.ex.MapOrders = args[0].(bool)
	return nil
}

// Ite(c, a, b int) int without forking.
func extVxIte(fr *frame, args []value) value {
	c := toTerm(args[0])
	return fromTerm(tIte(c, toTerm(args[1]), toTerm(args[2])), types.Int)
}

func extVxEpochMark(fr *frame, args []value) value {
	if fr.i.ex.StoreMon != nil {
		fr.i.ex.StoreMon.mark(fr.i)
	}
	return nil
}

func extVxMonitor(fr *frame, args []value) value {
	on := args[0].(bool)
	if on {
		fr.i.ex.StoreMon = newStoreMonitor()
	} else {
		if m := fr.i.ex.StoreMon; m != nil {
			fr.i.ex.MonTotals["stores_monitored"] += m.Stores
			fr.i.ex.MonTotals["stores_into_shared_memory_synchronised"] += m.SharedStores
			fr.i.ex.MonTotals["atomic_stores"] += m.atomicStores
			if len(m.regions) > fr.i.ex.MonTotals["shared_regions_at_mark"] {
				fr.i.ex.MonTotals["shared_regions_at_mark"] = len(m.regions)
			}
		}
		fr.i.ex.StoreMon = nil
	}
	return nil
}

// concString returns the Go string of a concrete string value; a symbolic
// one is concretised byte by byte (forking).
func (i *interpreter) concString(v value) string {
	switch v := v.(type) {
	case string:
		return v
	case symString:
		bs := make([]byte, len(v))
		for k, x := range v {
			switch x := x.(type) {
			case uint8:
				bs[k] = x
			case symVal:
				bs[k] = byte(i.ex.Concretize(x.t))
			}
		}
		return string(bs)
	}
	panic(engineError(fmt.Sprintf("concString: %T", v)))
}

// ---------------------------------------------------------------------------
// sync

// firstUint32 finds the address of the first uint32 leaf under *p.
func firstUint32(p *value) *value {
	switch v := (*p).(type) {
	case uint32:
		return p
	case structure:
		for k := range v {
			if q := firstUint32(&v[k]); q != nil {
				return q
			}
		}
	}
	return nil
}

func extOnceDo(fr *frame, args []value) value {
	once := args[0].(*value)
	done := firstUint32(once)
	if done == nil {
		panic(engineError("sync.Once layout"))
	}
	if (*done).(uint32) != 0 {
		return nil
	}
	if fr.i.onceActive[once] {
		panic(engineError("re-entrant sync.Once.Do (deadlock in the real program) at " + fr.callerPos()))
	}
	fr.i.onceActive[once] = true
	if fr.i.ex != nil && fr.i.ex.StoreMon != nil {
		fr.i.ex.StoreMon.syncDepth++
	}
	if fr.i.ex != nil && fr.i.ex.Guard != nil {
		g := fr.i.ex.Guard
		g.onceDepth++
		defer func() { g.onceDepth-- }()
	}
	defer func() {
		delete(fr.i.onceActive, once)
		if fr.i.ex != nil && fr.i.ex.StoreMon != nil {
			fr.i.ex.StoreMon.syncDepth--
		}
		*done = uint32(1)
	}()
	call(fr.i, fr, token.NoPos, args[1], nil)
	return nil
}

func (fr *frame) callerPos() string {
	if fr.caller != nil {
		return fr.caller.fn.String()
	}
	return "?"
}

func extLock(fr *frame, args []value) value {
	if fr.i.ex != nil && fr.i.ex.StoreMon != nil {
		fr.i.ex.StoreMon.syncDepth++
	}
	return nil
}

func extUnlock(fr *frame, args []value) value {
	if fr.i.ex != nil && fr.i.ex.StoreMon != nil {
		fr.i.ex.StoreMon.syncDepth--
	}
	return nil
}

func extPoolPut(fr *frame, args []value) value {
	if fr.i.ex != nil && fr.i.ex.StoreMon != nil {
		fr.i.ex.StoreMon.onPoolPut(args[1])
	}
	if fr.i.ex != nil && fr.i.ex.PoolReuse {
		p := args[0].(*value)
		fr.i.pools[p] = append(fr.i.pools[p], args[1])
	}
	return nil
}

func extPoolGet(fr *frame, args []value) value {
	if fr.i.ex != nil && fr.i.ex.PoolReuse {
		p := args[0].(*value)
		if st := fr.i.pools[p]; len(st) > 0 {
			v := st[len(st)-1]
			fr.i.pools[p] = st[:len(st)-1]
			if fr.i.ex.StoreMon != nil {
				fr.i.ex.StoreMon.onPoolGet(v)
			}
			return v
		}
	}
	pool := (*args[0].(*value)).(structure)
	newFn := pool[len(pool)-1]
	switch f := newFn.(type) {
	case *ssa.Function:
		if f == nil {
			return iface{}
		}
	}
	return call(fr.i, fr, token.NoPos, newFn, nil)
}

func extAtomicLoad(fr *frame, args []value) value {
	p := args[0].(*value)
	if p == nil {
		panic(runtimeErrorString("invalid memory address or nil pointer dereference"))
	}
	if fr.i.ex != nil && fr.i.ex.StoreMon != nil {
		fr.i.ex.StoreMon.onAccess(fr, p, "atomic load")
	}
	return *p
}

func extAtomicStore(fr *frame, args []value) value {
	p := args[0].(*value)
	if p == nil {
		panic(runtimeErrorString("invalid memory address or nil pointer dereference"))
	}
	if fr.i.ex != nil && fr.i.ex.StoreMon != nil {
		fr.i.ex.StoreMon.atomicStores++
	}
	*p = args[1]
	return nil
}

func extAtomicAdd(fr *frame, args []value) value {
	p := args[0].(*value)
	*p = fr.i.binopSym(token.ADD, nil, *p, args[1])
	return *p
}

func extAtomicCAS(fr *frame, args []value) value {
	p := args[0].(*value)
	eq := fr.i.binopSym(token.EQL, types.Typ[types.Int64], *p, args[1])
	var ok bool
	switch e := eq.(type) {
	case bool:
		ok = e
	case symVal:
		ok = fr.i.ex.Branch(e.t)
	}
	if ok {
		*p = args[2]
	}
	return ok
}

func extAtomicValueStore(fr *frame, args []value) value {
	p := args[0].(*value)
	if args[1].(iface).t == nil {
		panic(targetPanic{iface{fr.i.runtimeErrorString, "sync/atomic: store of nil value into Value"}})
	}
	(*p).(structure)[0] = args[1]
	return nil
}

func extAtomicValueLoad(fr *frame, args []value) value {
	p := args[0].(*value)
	return (*p).(structure)[0]
}

// ---------------------------------------------------------------------------
// strings / bytes

func (i *interpreter) indexBytes(s []value, sub []value) int {
	n, m := len(s), len(sub)
	if m == 0 {
		return 0
	}
	for p := 0; p+m <= n; p++ {
		c := tBool(true)
		for q := 0; q < m; q++ {
			c = tAnd(c, tEq(byteTerm(s[p+q]), byteTerm(sub[q])))
			if c.IsFalse() {
				break
			}
		}
		if i.ex.Branch(c) {
			return p
		}
	}
	return -1
}

func (i *interpreter) lastIndexBytes(s []value, sub []value) int {
	n, m := len(s), len(sub)
	if m == 0 {
		return n
	}
	for p := n - m; p >= 0; p-- {
		c := tBool(true)
		for q := 0; q < m; q++ {
			c = tAnd(c, tEq(byteTerm(s[p+q]), byteTerm(sub[q])))
			if c.IsFalse() {
				break
			}
		}
		if i.ex.Branch(c) {
			return p
		}
	}
	return -1
}

func extStringsIndex(fr *frame, args []value) value {
	if a, ok := args[0].(string); ok {
		if b, ok := args[1].(string); ok {
			return strings.Index(a, b)
		}
	}
	return fr.i.indexBytes(strBytes(args[0]), strBytes(args[1]))
}

func extStringsLastIndex(fr *frame, args []value) value {
	if a, ok := args[0].(string); ok {
		if b, ok := args[1].(string); ok {
			return strings.LastIndex(a, b)
		}
	}
	return fr.i.lastIndexBytes(strBytes(args[0]), strBytes(args[1]))
}

func extStringsIndexByte(fr *frame, args []value) value {
	if a, ok := args[0].(string); ok {
		if b, ok := args[1].(uint8); ok {
			return strings.IndexByte(a, b)
		}
	}
	return fr.i.indexBytes(strBytes(args[0]), []value{args[1]})
}

func extStringsLastIndexByte(fr *frame, args []value) value {
	if a, ok := args[0].(string); ok {
		if b, ok := args[1].(uint8); ok {
			return strings.LastIndexByte(a, b)
		}
	}
	return fr.i.lastIndexBytes(strBytes(args[0]), []value{args[1]})
}

func extBytesIndexByte(fr *frame, args []value) value {
	return fr.i.indexBytes(args[0].([]value), []value{args[1]})
}

func extBytesIndex(fr *frame, args []value) value {
	return fr.i.indexBytes(args[0].([]value), args[1].([]value))
}

// countNonOverlapping mirrors strings.Count for a non-empty separator.
func (i *interpreter) countNonOverlapping(s, sep []value) int {
	n := 0
	for {
		p := i.indexBytes(s, sep)
		if p < 0 {
			return n
		}
		n++
		s = s[p+len(sep):]
	}
}

func extStringsCount(fr *frame, args []value) value {
	if a, ok := args[0].(string); ok {
		if b, ok := args[1].(string); ok {
			return strings.Count(a, b)
		}
	}
	sep := strBytes(args[1])
	if len(sep) == 0 {
		panic(engineError("strings.Count with empty separator on symbolic text"))
	}
	return fr.i.countNonOverlapping(strBytes(args[0]), sep)
}

func extCountByteString(fr *frame, args []value) value {
	return fr.i.countNonOverlapping(strBytes(args[0]), []value{args[1]})
}

func extBytesCountByte(fr *frame, args []value) value {
	return fr.i.countNonOverlapping(args[0].([]value), []value{args[1]})
}

func extBytesEqual(fr *frame, args []value) value {
	a, b := args[0].([]value), args[1].([]value)
	if len(a) != len(b) {
		return false
	}
	c := tBool(true)
	for k := range a {
		c = tAnd(c, tEq(byteTerm(a[k]), byteTerm(b[k])))
	}
	return boolVal(c)
}

func extMakeNoZero(fr *frame, args []value) value {
	n := fr.i.concInt(args[0])
	out := make([]value, n)
	for k := range out {
		out[k] = uint8(0)
	}
	return out
}

func extBuilderString(fr *frame, args []value) value {
	b := (*args[0].(*value)).(structure)
	buf := b[1].([]value)
	return mkString(append([]value{}, buf...))
}

// strings.EqualFold: concrete on concrete text; symbolic text against concrete ASCII text without
// the letters k and s (the only ASCII letters with non-ASCII fold partners, U+212A and U+017F) is
// decided byte by byte: same length and every byte equal up to ASCII case. Anything else is not modelled.
func extStringsEqualFoldConcrete(fr *frame, args []value) value {
	a, aok := args[0].(string)
	b, bok := args[1].(string)
	if aok && bok {
		return strings.EqualFold(a, b)
	}
	var conc string
	var sym []value
	switch {
	case aok:
		conc, sym = a, strBytes(args[1])
	case bok:
		conc, sym = b, strBytes(args[0])
	default:
		panic(engineError("strings.EqualFold on two symbolic texts is not modelled"))
	}
	for k := 0; k < len(conc); k++ {
		if conc[k] >= 0x80 || strings.IndexByte("kKsS", conc[k]) >= 0 {
			panic(engineError("strings.EqualFold on symbolic text against non-ASCII text or the letters k/s is not modelled"))
		}
	}
	if len(sym) != len(conc) {
		return false
	}
	c := tBool(true)
	for k := 0; k < len(conc); k++ {
		cb := conc[k]
		t := tEq(byteTerm(sym[k]), byteTerm(uint8(cb)))
		if (cb >= 'a' && cb <= 'z') || (cb >= 'A' && cb <= 'Z') {
			t = tOr(t, tEq(byteTerm(sym[k]), byteTerm(uint8(cb^0x20))))
		}
		c = tAnd(c, t)
	}
	return fr.i.ex.Branch(c)
}

func extStringsToLowerConcrete(fr *frame, args []value) value {
	return strings.ToLower(fr.i.mustConcreteString(args[0], "strings.ToLower"))
}

func (i *interpreter) mustConcreteString(v value, who string) string {
	s, ok := v.(string)
	if !ok {
		panic(engineError(who + " on symbolic text is not modelled"))
	}
	return s
}

func extDecodeRuneInString(fr *frame, args []value) value {
	b := strBytes(args[0])
	if len(b) == 0 {
		return tuple{int32(0xFFFD), 0}
	}
	r, n := fr.i.decodeRune(b)
	return tuple{r, n}
}

func extDecodeRune(fr *frame, args []value) value {
	b := args[0].([]value)
	if len(b) == 0 {
		return tuple{int32(0xFFFD), 0}
	}
	r, n := fr.i.decodeRune(b)
	return tuple{r, n}
}

// ---------------------------------------------------------------------------
// fmt (formatting is never the subject; a faithful subset)

// fmtArgs formats like fmt.Sprintf for the verbs the encoded code uses;
// symbolic strings are spliced in for %s/%v/%q.
func (i *interpreter) sprintf(fr *frame, format string, args []value) value {
	var out []value
	emit := func(s string) {
		out = append(out, strBytes(s)...)
	}
	argi := 0
	for p := 0; p < len(format); p++ {
		c := format[p]
		if c != '%' {
			out = append(out, c)
			continue
		}
		p++
		if p >= len(format) {
			emit("%!(NOVERB)")
			break
		}
		// flags / explicit index
		spec := "%"
		for p < len(format) && strings.IndexByte("+-# 0123456789.[]", format[p]) >= 0 {
			spec += string(format[p])
			p++
		}
		if p >= len(format) {
			break
		}
		verb := format[p]
		if verb == '%' {
			out = append(out, byte('%'))
			continue
		}
		// explicit argument index %[n]v
		if k := strings.Index(spec, "["); k >= 0 {
			e := strings.Index(spec, "]")
			n, _ := strconv.Atoi(spec[k+1 : e])
			argi = n - 1
			spec = spec[:k] + spec[e+1:]
		}
		if argi >= len(args) {
			emit("%!" + string(verb) + "(MISSING)")
			continue
		}
		a := args[argi]
		argi++
		if it, ok := a.(iface); ok {
			out = append(out, strBytes(i.fmtOne(fr, spec, verb, it))...)
		} else {
			out = append(out, strBytes(i.fmtOne(fr, spec, verb, iface{nil, a}))...)
		}
	}
	return mkString(out)
}

func (i *interpreter) fmtOne(fr *frame, spec string, verb byte, it iface) value {
	if it.t == nil && it.v == nil {
		return "<nil>"
	}
	if verb == 'T' {
		if it.t == nil {
			return "<nil>"
		}
		return types.TypeString(it.t, func(p *types.Package) string { return p.Name() })
	}
	v := it.v
	// error / Stringer
	if it.t != nil && verb != 'd' && verb != 'x' && verb != 'c' && verb != 'p' {
		if it.t == rtypeType {
			return types.TypeString(v.(rtype).t, func(p *types.Package) string { return p.Name() })
		}
		if m := i.findMethod(it.t, "Error"); m != nil {
			return i.fmtCallMethod(fr, m, v, rune(verb), "Error")
		}
		if it.t == errorType {
			return v
		}
		if m := i.findMethod(it.t, "String"); m != nil {
			return i.fmtCallMethod(fr, m, v, rune(verb), "String")
		}
	}
	switch x := v.(type) {
	case string:
		if verb == 'q' {
			return strconv.Quote(x)
		}
		return fmt.Sprintf(spec+string(verb), x)
	case symString:
		if verb == 'q' {
			return mkString(append(append([]value{uint8('"')}, x...), uint8('"')))
		}
		return x
	case symVal:
		c := i.ex.Concretize(x.t)
		return fmt.Sprintf(spec+string(verb), concreteOfKind(c, x.k))
	case bool, int, int8, int16, int32, int64, uint, uint8, uint16, uint32, uint64, uintptr, float32, float64:
		return fmt.Sprintf(spec+string(verb), x)
	case []value:
		// []byte with %s / %x
		bs := make([]byte, 0, len(x))
		okb := true
		for _, e := range x {
			b, ok := e.(uint8)
			if !ok {
				okb = false
				break
			}
			bs = append(bs, b)
		}
		if okb {
			return fmt.Sprintf(spec+string(verb), bs)
		}
		if verb == 's' || verb == 'v' {
			return mkString(x)
		}
	case rtype:
		return types.TypeString(x.t, func(p *types.Package) string { return p.Name() })
	case *value:
		return "0xPTR"
	case structure:
		return "{" + toString(x) + "}"
	}
	return fmt.Sprintf("%%!%c(%T)", verb, v)
}

func (i *interpreter) findMethod(t types.Type, name string) *ssa.Function {
	if t == nil || t == rtypeType || t == errorType {
		return nil
	}
	ms := i.prog.MethodSets.MethodSet(t)
	for k := 0; k < ms.Len(); k++ {
		sel := ms.At(k)
		if sel.Obj().Name() == name {
			if sig, ok := sel.Type().(*types.Signature); ok && sig.Params().Len() == 0 && sig.Results().Len() == 1 {
				return i.prog.MethodValue(sel)
			}
		}
	}
	return nil
}

func extSprintf(fr *frame, args []value) value {
	return fr.i.sprintf(fr, fr.i.concString(args[0]), args[1].([]value))
}

func extErrorf(fr *frame, args []value) value {
	s := fr.i.sprintf(fr, fr.i.concString(args[0]), args[1].([]value))
	return iface{errorType, s}
}

func extSprint(fr *frame, args []value) value {
	var out []value
	for _, a := range args[0].([]value) {
		out = append(out, strBytes(fr.i.fmtOne(fr, "%", 'v', a.(iface)))...)
	}
	return mkString(out)
}

func extFprintf(fr *frame, args []value) value {
	var s value
	if fs, ok := args[1].(symString); ok && fr.i.indexBytes(strBytes(fs), []value{uint8('%')}) < 0 {
		// a symbolic format text without any verb is written as it is (no enumeration of its values);
		// with a '%' in it, it is concretised and formatted like any other format
		s = fs
	} else {
		s = fr.i.sprintf(fr, fr.i.concString(args[1]), args[2].([]value))
	}
	w := args[0].(iface)
	wm := fr.i.prog.LookupMethod(w.t, nil, "Write")
	if wm == nil {
		panic(engineError("Fprintf: writer without Write"))
	}
	r := call(fr.i, fr, token.NoPos, wm, []value{w.v, append([]value{}, strBytes(s)...)})
	return r
}

// runtime.Caller: a stub stack of six frames in three source files (two consecutive frames per
// file), so that code walking the stack takes both its "same file as before" and its "another
// file" branches; os.ReadFile knows those files (three lines each) and no others.
func extRuntimeCaller(fr *frame, args []value) value {
	k := int(fr.i.concInt(args[0]))
	if k < 0 || k >= 6 {
		return tuple{uintptr(0), "", 0, false}
	}
	return tuple{uintptr(k + 1), "/symx-stub/frame" + strconv.Itoa(k/2) + ".go", 1 + k%3, true}
}

func extOsReadFile(fr *frame, args []value) value {
	if name := fr.i.concString(args[0]); strings.HasPrefix(name, "/symx-stub/frame") {
		var out []value
		for _, c := range []byte("first line\n\tsecond line\nthird line\n") {
			out = append(out, c)
		}
		return tuple{out, iface{}}
	}
	return tuple{[]value(nil), iface{errorType, "open: file reading is stubbed"}}
}

// strconv on symbolic text: concretise (these run on short, bounded values).
func extStrconvAtoi(fr *frame, args []value) value {
	n, e := strconv.Atoi(fr.i.concString(args[0]))
	if e != nil {
		return tuple{n, iface{errorType, e.Error()}}
	}
	return tuple{n, iface{}}
}

func extStrconvItoa(fr *frame, args []value) value {
	return strconv.Itoa(int(fr.i.concInt(args[0])))
}

func extStrconvParseInt(fr *frame, args []value) value {
	n, e := strconv.ParseInt(fr.i.concString(args[0]), int(fr.i.concInt(args[1])), int(fr.i.concInt(args[2])))
	if e != nil {
		return tuple{n, iface{errorType, e.Error()}}
	}
	return tuple{n, iface{}}
}

func extStrconvParseBool(fr *frame, args []value) value {
	b, e := strconv.ParseBool(fr.i.concString(args[0]))
	if e != nil {
		return tuple{b, iface{errorType, e.Error()}}
	}
	return tuple{b, iface{}}
}

func extStrconvParseFloat(fr *frame, args []value) value {
	f, e := strconv.ParseFloat(fr.i.concString(args[0]), int(fr.i.concInt(args[1])))
	if e != nil {
		return tuple{f, iface{errorType, e.Error()}}
	}
	return tuple{f, iface{}}
}

// ---------------------------------------------------------------------------
// net/http leaves

func headerKey(fr *frame, v value) value {
	if s, ok := v.(string); ok {
		return textproto.CanonicalMIMEHeaderKey(s)
	}
	panic(engineError("symbolic header name"))
}

func extHeaderGet(fr *frame, args []value) value {
	m, _ := args[0].(*omap)
	if m == nil {
		return ""
	}
	v, ok := m.lookup(fr.i, headerKey(fr, args[1]))
	if !ok {
		return ""
	}
	vs := v.([]value)
	if len(vs) == 0 {
		return ""
	}
	return vs[0]
}

func extHeaderValues(fr *frame, args []value) value {
	m, _ := args[0].(*omap)
	if m == nil {
		return []value(nil)
	}
	v, ok := m.lookup(fr.i, headerKey(fr, args[1]))
	if !ok {
		return []value(nil)
	}
	return v
}

func extHeaderSet(fr *frame, args []value) value {
	m := args[0].(*omap)
	m.insert(fr.i, headerKey(fr, args[1]), []value{args[2]})
	return nil
}

func extHeaderAdd(fr *frame, args []value) value {
	m := args[0].(*omap)
	k := headerKey(fr, args[1])
	old, _ := m.lookup(fr.i, k)
	var vs []value
	if old != nil {
		vs = old.([]value)
	}
	m.insert(fr.i, k, append(append([]value{}, vs...), args[2]))
	return nil
}

func extHeaderDel(fr *frame, args []value) value {
	m, _ := args[0].(*omap)
	if m != nil {
		m.delete(fr.i, headerKey(fr, args[1]))
	}
	return nil
}

// http.Error(w, msg, code): header edits are not modelled; the status line
// and the body are sent through w exactly as net/http does.
func extHTTPError(fr *frame, args []value) value {
	w := args[0].(iface)
	wh := fr.i.prog.LookupMethod(w.t, nil, "WriteHeader")
	wr := fr.i.prog.LookupMethod(w.t, nil, "Write")
	call(fr.i, fr, token.NoPos, wh, []value{w.v, args[2]})
	body := append(append([]value{}, strBytes(args[1])...), uint8('\n'))
	call(fr.i, fr, token.NoPos, wr, []value{w.v, body})
	return nil
}

func extHTTPNotFound(fr *frame, args []value) value {
	return extHTTPError(fr, []value{args[0], "404 page not found", 404})
}

// selectSym handles the one select shape flamego uses: a non-blocking
// receive from a (possibly nil) Done channel.
func (i *interpreter) selectSym(fr *frame, instr *ssa.Select) (value, bool) {
	if instr.Blocking || len(instr.States) != 1 || instr.States[0].Dir != types.RecvOnly {
		return nil, false
	}
	ch := fr.get(instr.States[0].Chan)
	c, ok := ch.(chan value)
	if !ok {
		return nil, false
	}
	elem := zero(instr.States[0].Chan.Type().Underlying().(*types.Chan).Elem())
	if c == nil {
		return tuple{-1, false, elem}, true
	}
	select {
	case v, ok := <-c:
		if ok {
			return tuple{0, true, v}, true
		}
		return tuple{0, false, elem}, true
	default:
		return tuple{-1, false, elem}, true
	}
}

const routePath = "github.com/flamego/flamego/internal/route"

func extRouteNewParser(fr *frame, args []value) value {
	pkg := fr.i.prog.ImportedPackage(routePath)
	t := pkg.Type("Parser").Type()
	cell := zero(t)
	return tuple{&cell, iface{}}
}

func extRouteParse(fr *frame, args []value) value {
	pkg := fr.i.prog.ImportedPackage(routePath)
	f := pkg.Func("vParseRoute")
	if f == nil {
		panic(engineError("route harness parser (vParseRoute) is not overlaid"))
	}
	return call(fr.i, fr, token.NoPos, f, []value{args[1]})
}

// ---- net/http cookies: net/http's package initialisers (sanitiser tables,
// replacers) are not run inside the interpreter, so the two entry points
// flamego uses are stubbed by their contract for cookie values over the
// alphabet url.QueryEscape produces (lemma L4 of DESIGN.md §3/C18).
func init() {
	externals["(*net/http.Cookie).String"] = extCookieString
	externals["(*net/http.Request).Cookie"] = extRequestCookie
}

func structFieldIndex(t types.Type, name string) int {
	st := t.Underlying().(*types.Struct)
	for k := 0; k < st.NumFields(); k++ {
		if st.Field(k).Name() == name {
			return k
		}
	}
	panic(engineError("no field " + name))
}

func extCookieString(fr *frame, args []value) value {
	pkg := fr.i.prog.ImportedPackage("net/http")
	ct := pkg.Type("Cookie").Type()
	c := (*args[0].(*value)).(structure)
	name := c[structFieldIndex(ct, "Name")]
	val := c[structFieldIndex(ct, "Value")]
	return mkString(append(append(append([]value{}, strBytes(name)...), uint8('=')), strBytes(val)...))
}

func extRequestCookie(fr *frame, args []value) value {
	pkg := fr.i.prog.ImportedPackage("net/http")
	rt := pkg.Type("Request").Type()
	ct := pkg.Type("Cookie").Type()
	req := (*args[0].(*value)).(structure)
	hdr, _ := req[structFieldIndex(rt, "Header")].(*omap)
	want := fr.i.concString(args[1])
	noCookie := tuple{(*value)(nil), iface{errorType, "http: named cookie not present"}}
	if hdr == nil {
		return noCookie
	}
	lines, ok := hdr.lookup(fr.i, "Cookie")
	if !ok {
		return noCookie
	}
	for _, line := range lines.([]value) {
		b := strBytes(line)
		eq := fr.i.indexBytes(b, []value{uint8('=')})
		if eq < 0 {
			continue
		}
		if nm, isStr := mkString(b[:eq]).(string); !isStr || nm != want {
			continue
		}
		cell := zero(ct)
		cs := cell.(structure)
		cs[structFieldIndex(ct, "Name")] = want
		cs[structFieldIndex(ct, "Value")] = mkString(b[eq+1:])
		return tuple{&cell, iface{}}
	}
	return noCookie
}

// ---- environment stubs used by Static (C16): each records its arguments in
// the path's stub log, which the harness reads with vx.StubLog().
func init() {
	externals[vxPath+".StubLog"] = func(fr *frame, args []value) value {
		out := make([]value, len(fr.i.ex.stubLog))
		copy(out, fr.i.ex.stubLog)
		return out
	}
	externals["os.Open"] = func(fr *frame, args []value) value {
		fr.i.ex.stubLog = append(fr.i.ex.stubLog, mkString(append(strBytes("os.Open "), strBytes(args[0])...)))
		return tuple{(*value)(nil), iface{errorType, "open: no such file or directory (stub)"}}
	}
	externals["os.Stat"] = func(fr *frame, args []value) value {
		fr.i.ex.stubLog = append(fr.i.ex.stubLog, mkString(append(strBytes("os.Stat "), strBytes(args[0])...)))
		return tuple{iface{}, iface{errorType, "stat: no such file or directory (stub)"}}
	}
	externals["net/http.Redirect"] = extHTTPRedirect
	externals["net/http.ServeContent"] = extHTTPServeContent
	externals["(time.Time).UTC"] = func(fr *frame, args []value) value { return args[0] }
	externals["(time.Time).Format"] = func(fr *frame, args []value) value { return "<time>" }
}

func methodOf(i *interpreter, w iface, name string) *ssa.Function {
	f := i.prog.LookupMethod(w.t, nil, name)
	if f == nil {
		panic(engineError("no method " + name + " on " + w.t.String()))
	}
	return f
}

// http.Redirect(w, r, url, code): records (url, code), sets Location to the
// url as given, sends the status. The body and net/http's URL clean-up are
// not modelled.
func extHTTPRedirect(fr *frame, args []value) value {
	w := args[0].(iface)
	code := args[3]
	fr.i.ex.stubLog = append(fr.i.ex.stubLog, mkString(append(append(strBytes("redirect "), strBytes(args[2])...), strBytes(" "+strconv.Itoa(int(fr.i.concInt(code))))...)))
	hdr := call(fr.i, fr, token.NoPos, methodOf(fr.i, w, "Header"), []value{w.v})
	extHeaderSet(fr, []value{hdr, "Location", args[2]})
	call(fr.i, fr, token.NoPos, methodOf(fr.i, w, "WriteHeader"), []value{w.v, code})
	return nil
}

// http.ServeContent(w, req, name, modtime, content): records the name, sends
// 200 and copies the content through Read. Range / conditional requests and
// content-type sniffing are not modelled.
func extHTTPServeContent(fr *frame, args []value) value {
	w := args[0].(iface)
	content := args[4].(iface)
	fr.i.ex.stubLog = append(fr.i.ex.stubLog, mkString(append(strBytes("servecontent "), strBytes(args[2])...)))
	call(fr.i, fr, token.NoPos, methodOf(fr.i, w, "WriteHeader"), []value{w.v, 200})
	read := methodOf(fr.i, content, "Read")
	for k := 0; k < 64; k++ {
		buf := make([]value, 16)
		for j := range buf {
			buf[j] = uint8(0)
		}
		r := call(fr.i, fr, token.NoPos, read, []value{content.v, buf}).(tuple)
		n := int(fr.i.concInt(r[0]))
		if n > 0 {
			call(fr.i, fr, token.NoPos, methodOf(fr.i, w, "Write"), []value{w.v, buf[:n]})
		}
		if r[1].(iface).t != nil || n == 0 {
			break
		}
	}
	return nil
}

// ---- errors.Is / errors.As / errors.Unwrap (the real ones use reflectlite)
func init() {
	externals["errors.Is"] = extErrorsIs
	externals["errors.Unwrap"] = func(fr *frame, args []value) value { return fr.i.unwrapErr(fr, args[0].(iface)) }
	externals["errors.As"] = extErrorsAs
}

func (i *interpreter) methodByName(t types.Type, name string) *ssa.Function {
	if t == nil || t == rtypeType || t == errorType {
		return nil
	}
	ms := i.prog.MethodSets.MethodSet(t)
	for k := 0; k < ms.Len(); k++ {
		if ms.At(k).Obj().Name() == name {
			return i.prog.MethodValue(ms.At(k))
		}
	}
	return nil
}

func (i *interpreter) unwrapErr(fr *frame, e iface) value {
	if e.t == nil {
		return iface{}
	}
	if m := i.methodByName(e.t, "Unwrap"); m != nil {
		if m.Signature.Results().Len() == 1 {
			if _, isSlice := m.Signature.Results().At(0).Type().Underlying().(*types.Slice); !isSlice {
				return call(i, fr, token.NoPos, m, []value{e.v})
			}
		}
	}
	return iface{}
}

func extErrorsIs(fr *frame, args []value) value {
	err, target := args[0].(iface), args[1].(iface)
	if err.t == nil || target.t == nil {
		return err.t == nil && target.t == nil
	}
	for depth := 0; depth < 32 && err.t != nil; depth++ {
		if sameType(err.t, target.t) {
			eq := fr.i.eqTerm(err.t, err.v, target.v)
			if fr.i.ex.Branch(eq) {
				return true
			}
		}
		if m := fr.i.methodByName(err.t, "Is"); m != nil && m.Signature.Params().Len() == 1 {
			r := call(fr.i, fr, token.NoPos, m, []value{err.v, target})
			if b, ok := r.(bool); ok && b {
				return true
			}
		}
		next := fr.i.unwrapErr(fr, err)
		err = next.(iface)
	}
	return false
}

func extErrorsAs(fr *frame, args []value) value {
	err := args[0].(iface)
	tgt := args[1].(iface)
	ptr, ok := tgt.t.Underlying().(*types.Pointer)
	if !ok || tgt.v.(*value) == nil {
		panic(targetPanic{iface{fr.i.runtimeErrorString, "errors: target must be a non-nil pointer"}})
	}
	want := ptr.Elem()
	for depth := 0; depth < 32 && err.t != nil; depth++ {
		if it, isIface := want.Underlying().(*types.Interface); isIface {
			if types.Implements(err.t, it) {
				*tgt.v.(*value) = err
				return true
			}
		} else if types.Identical(err.t, want) {
			*tgt.v.(*value) = err.v
			return true
		}
		err = fr.i.unwrapErr(fr, err).(iface)
	}
	return false
}

// ---- encoding/json and encoding/xml encoders (C17): reflection-driven, out of
// the interpreter's reach. NewEncoder/SetIndent/Indent run from SSA; Encode is
// stubbed: it records (value, indent) and writes a marker through the
// encoder's writer. "The body decodes back" is the encoders' own contract.
func init() {
	externals["(*encoding/json.Encoder).Encode"] = func(fr *frame, args []value) value {
		pkg := fr.i.prog.ImportedPackage("encoding/json")
		et := pkg.Type("Encoder").Type()
		e := (*args[0].(*value)).(structure)
		w := e[structFieldIndex(et, "w")].(iface)
		indent := e[structFieldIndex(et, "indentValue")]
		fr.i.ex.stubLog = append(fr.i.ex.stubLog, mkString(append(append(strBytes("json.Encode "+toStringSym(args[1])+" indent="), strBytes(indent)...))))
		call(fr.i, fr, token.NoPos, methodOf(fr.i, w, "Write"), []value{w.v, strBytes("<json>")})
		return iface{}
	}
	externals["(*encoding/xml.Encoder).Encode"] = func(fr *frame, args []value) value {
		pkg := fr.i.prog.ImportedPackage("encoding/xml")
		et := pkg.Type("Encoder").Type()
		pt := pkg.Type("printer").Type()
		e := (*args[0].(*value)).(structure)
		p := e[structFieldIndex(et, "p")].(structure)
		indent := p[structFieldIndex(pt, "indent")]
		bw := (*p[structFieldIndex(pt, "w")].(*value)).(structure)
		bpkg := fr.i.prog.ImportedPackage("bufio")
		w := bw[structFieldIndex(bpkg.Type("Writer").Type(), "wr")].(iface)
		fr.i.ex.stubLog = append(fr.i.ex.stubLog, mkString(append(append(strBytes("xml.Encode "+toStringSym(args[1])+" indent="), strBytes(indent)...))))
		// an empty or nil slice and a nil pointer encode to zero bytes (nothing is written)
		empty := false
		switch v := args[1].(iface).v.(type) {
		case []value:
			empty = len(v) == 0
		case *value:
			empty = v == nil
		}
		if !empty {
			call(fr.i, fr, token.NoPos, methodOf(fr.i, w, "Write"), []value{w.v, strBytes("<xml>")})
		}
		return iface{}
	}
}

// ---- sort.Slice / sort.SliceStable (the real ones swap through reflectlite).
// The host's implementation is the same algorithm as the target's standard
// library (same Go release), so the resulting permutation is the real one.
func init() {
	sorter := func(stable bool) externalFn {
		return func(fr *frame, args []value) value {
			x, ok := args[0].(iface).v.([]value)
			if !ok {
				panic(targetPanic{iface{fr.i.runtimeErrorString, "sort.Slice: not a slice"}})
			}
			less := func(a, b int) bool {
				r := call(fr.i, fr, token.NoPos, args[1], []value{a, b})
				switch r := r.(type) {
				case bool:
					return r
				case symVal:
					return fr.i.ex.Branch(r.t)
				}
				panic(engineError("sort less result"))
			}
			if stable {
				sort.SliceStable(x, less)
			} else {
				sort.Slice(x, less)
			}
			return nil
		}
	}
	externals["sort.Slice"] = sorter(false)
	externals["sort.SliceStable"] = sorter(true)
}

// fmtCallMethod calls an Error/String method the way package fmt does
// (fmt.(*pp).catchPanic): a panic raised by the method does not escape the
// formatting call; a nil pointer receiver prints as "<nil>", anything else as
// "%!v(PANIC=Method method: ...)".
func (i *interpreter) fmtCallMethod(fr *frame, m *ssa.Function, recv value, verb rune, name string) (out value) {
	defer func() {
		if p := recover(); p != nil {
			var msg string
			switch x := p.(type) {
			case targetPanic:
				msg = toStringSym(x.v)
			case runtimeErrorString:
				msg = x.Error()
			case runtime.Error:
				msg = x.Error()
			default:
				panic(p) // engine errors, path aborts
			}
			if pv, ok := recv.(*value); ok && pv == nil {
				out = "<nil>"
				return
			}
			out = "%!" + string(verb) + "(PANIC=" + name + " method: " + msg + ")"
		}
	}()
	return call(i, fr, token.NoPos, m, []value{recv})
}

func extAtomicSwap(fr *frame, args []value) value {
	p := args[0].(*value)
	if p == nil {
		panic(runtimeErrorString("invalid memory address or nil pointer dereference"))
	}
	old := *p
	*p = args[1]
	return old
}

func extAtomicCASPointer(fr *frame, args []value) value {
	p := args[0].(*value)
	if p == nil {
		panic(runtimeErrorString("invalid memory address or nil pointer dereference"))
	}
	if equals(types.Typ[types.UnsafePointer], *p, args[1]) {
		*p = args[2]
		return true
	}
	return false
}

// ---- sync.Map: modelled as an insertion-ordered map with (possibly symbolic)
// string or integer keys; the real one is a lock-free structure over
// map[any]*entry that the interpreter's hash map cannot key by symbolic text.
var syncMaps = map[*value]*omap{}

func syncMapOf(fr *frame, recv value, write bool) *omap {
	p := recv.(*value)
	if p == nil {
		panic(runtimeErrorString("invalid memory address or nil pointer dereference"))
	}
	if write && fr.i.ex != nil && fr.i.ex.Guard != nil {
		fr.i.ex.Guard.onStore(fr, p)
	}
	if write && fr.i.ex != nil && fr.i.ex.StoreMon != nil {
		// the map synchronises internally: counted like an atomic store
		fr.i.ex.StoreMon.atomicStores++
	}
	m, ok := syncMaps[p]
	if !ok {
		m = &omap{keyType: types.Typ[types.String], idx: map[value]int{}}
		syncMaps[p] = m
	}
	return m
}

func syncMapKey(k value) value {
	it, ok := k.(iface)
	if !ok || it.t == nil {
		panic(engineError("sync.Map: nil or non-interface key"))
	}
	if b, isBasic := it.t.Underlying().(*types.Basic); !isBasic || b.Info()&(types.IsString|types.IsInteger) == 0 {
		panic(engineError("sync.Map model supports string and integer keys only, got " + it.t.String()))
	}
	return it.v
}

func init() {
	externals["(*sync.Map).Load"] = func(fr *frame, args []value) value {
		m := syncMapOf(fr, args[0], false)
		v, ok := m.lookup(fr.i, syncMapKey(args[1]))
		if !ok {
			return tuple{iface{}, false}
		}
		return tuple{v, true}
	}
	externals["(*sync.Map).Store"] = func(fr *frame, args []value) value {
		syncMapOf(fr, args[0], true).insert(fr.i, syncMapKey(args[1]), args[2])
		return nil
	}
	externals["(*sync.Map).LoadOrStore"] = func(fr *frame, args []value) value {
		m := syncMapOf(fr, args[0], true)
		k := syncMapKey(args[1])
		if v, ok := m.lookup(fr.i, k); ok {
			return tuple{v, true}
		}
		m.insert(fr.i, k, args[2])
		return tuple{args[2], false}
	}
	externals["(*sync.Map).Delete"] = func(fr *frame, args []value) value {
		syncMapOf(fr, args[0], true).delete(fr.i, syncMapKey(args[1]))
		return nil
	}
	externals["(*sync.Map).Range"] = func(fr *frame, args []value) value {
		m := syncMapOf(fr, args[0], false)
		for _, e := range append([]oentry{}, m.entries...) {
			r := call(fr.i, fr, token.NoPos, args[1], []value{iface{types.Typ[types.String], e.k}, e.v})
			if b, ok := r.(bool); ok && !b {
				break
			}
		}
		return nil
	}
}
