// Copyright 2013 The Go Authors. All rights reserved.
// Use of this source code is governed by a BSD-style
// license that can be found in the LICENSE file.

package symx

// Emulated "reflect" package.
//
// We completely replace the built-in "reflect" package.
// The only thing clients can depend upon are that reflect.Type is an
// interface and reflect.Value is an (opaque) struct.

import (
	"fmt"
	"go/token"
	"go/types"
	"reflect"
	"unsafe"

	"golang.org/x/tools/go/ssa"
)

type opaqueType struct {
	types.Type
	name string
}

func (t *opaqueType) String() string { return t.name }

// A bogus "reflect" type-checker package.  Shared across interpreters.
var reflectTypesPackage = types.NewPackage("reflect", "reflect")

// rtype is the concrete type the interpreter uses to implement the
// reflect.Type interface.
//
// type rtype <opaque>
var rtypeType = makeNamedType("rtype", &opaqueType{nil, "rtype"})

// error is an (interpreted) named type whose underlying type is string.
// The interpreter uses it for all implementations of the built-in error
// interface that it creates.
// We put it in the "reflect" package for expedience.
//
// type error string
var errorType = makeNamedType("error", &opaqueType{nil, "error"})

func makeNamedType(name string, underlying types.Type) *types.Named {
	obj := types.NewTypeName(token.NoPos, reflectTypesPackage, name, nil)
	return types.NewNamed(obj, underlying, nil)
}

func makeReflectValue(t types.Type, v value) value {
	return structure{rtype{t}, v}
}

// Given a reflect.Value, returns its rtype.
func rV2T(v value) rtype {
	return v.(structure)[0].(rtype)
}

// Given a reflect.Value, returns the underlying interpreter value.
func rV2V(v value) value {
	return v.(structure)[1]
}

// makeReflectType boxes up an rtype in a reflect.Type interface.
func makeReflectType(rt rtype) value {
	return iface{rtypeType, rt}
}

func ext۰reflect۰rtype۰Bits(fr *frame, args []value) value {
	// Signature: func (t reflect.rtype) int
	rt := args[0].(rtype).t
	basic, ok := rt.Underlying().(*types.Basic)
	if !ok {
		panic(fmt.Sprintf("reflect.Type.Bits(%T): non-basic type", rt))
	}
	return int(fr.i.sizes.Sizeof(basic)) * 8
}

func ext۰reflect۰rtype۰Elem(fr *frame, args []value) value {
	// Signature: func (t reflect.rtype) reflect.Type
	return makeReflectType(rtype{args[0].(rtype).t.Underlying().(interface {
		Elem() types.Type
	}).Elem()})
}

func ext۰reflect۰rtype۰Field(fr *frame, args []value) value {
	// Signature: func (t reflect.rtype, i int) reflect.StructField
	st := args[0].(rtype).t.Underlying().(*types.Struct)
	i := args[1].(int)
	f := st.Field(i)
	return structure{
		f.Name(),
		f.Pkg().Path(),
		makeReflectType(rtype{f.Type()}),
		st.Tag(i),
		0,         // TODO(adonovan): offset
		[]value{}, // TODO(adonovan): indices
		f.Anonymous(),
	}
}

func ext۰reflect۰rtype۰In(fr *frame, args []value) value {
	// Signature: func (t reflect.rtype, i int) int
	i := args[1].(int)
	return makeReflectType(rtype{args[0].(rtype).t.Underlying().(*types.Signature).Params().At(i).Type()})
}

func ext۰reflect۰rtype۰Kind(fr *frame, args []value) value {
	// Signature: func (t reflect.rtype) uint
	return uint(reflectKind(args[0].(rtype).t))
}

func ext۰reflect۰rtype۰NumField(fr *frame, args []value) value {
	// Signature: func (t reflect.rtype) int
	return args[0].(rtype).t.Underlying().(*types.Struct).NumFields()
}

func ext۰reflect۰rtype۰NumIn(fr *frame, args []value) value {
	// Signature: func (t reflect.rtype) int
	return args[0].(rtype).t.Underlying().(*types.Signature).Params().Len()
}

func ext۰reflect۰rtype۰NumMethod(fr *frame, args []value) value {
	// Signature: func (t reflect.rtype) int
	return fr.i.prog.MethodSets.MethodSet(args[0].(rtype).t).Len()
}

func ext۰reflect۰rtype۰NumOut(fr *frame, args []value) value {
	// Signature: func (t reflect.rtype) int
	return args[0].(rtype).t.Underlying().(*types.Signature).Results().Len()
}

func ext۰reflect۰rtype۰Out(fr *frame, args []value) value {
	// Signature: func (t reflect.rtype, i int) int
	i := args[1].(int)
	return makeReflectType(rtype{args[0].(rtype).t.Underlying().(*types.Signature).Results().At(i).Type()})
}

func ext۰reflect۰rtype۰Size(fr *frame, args []value) value {
	// Signature: func (t reflect.rtype) uintptr
	return uintptr(fr.i.sizes.Sizeof(args[0].(rtype).t))
}

func ext۰reflect۰rtype۰String(fr *frame, args []value) value {
	// Signature: func (t reflect.rtype) string
	return args[0].(rtype).t.String()
}

func ext۰reflect۰New(fr *frame, args []value) value {
	// Signature: func (t reflect.Type) reflect.Value
	t := args[0].(iface).v.(rtype).t
	alloc := zero(t)
	return makeReflectValue(types.NewPointer(t), &alloc)
}

func ext۰reflect۰SliceOf(fr *frame, args []value) value {
	// Signature: func (t reflect.rtype) Type
	return makeReflectType(rtype{types.NewSlice(args[0].(iface).v.(rtype).t)})
}

func ext۰reflect۰TypeOf(fr *frame, args []value) value {
	// Signature: func (t reflect.rtype) Type
	if args[0].(iface).t == nil {
		return iface{}
	}
	return makeReflectType(rtype{args[0].(iface).t})
}

func ext۰reflect۰ValueOf(fr *frame, args []value) value {
	// Signature: func (interface{}) reflect.Value
	itf := args[0].(iface)
	if itf.t == nil {
		return makeReflectValue(nil, nil)
	}
	return makeReflectValue(itf.t, itf.v)
}

func ext۰reflect۰Zero(fr *frame, args []value) value {
	// Signature: func (t reflect.Type) reflect.Value
	t := args[0].(iface).v.(rtype).t
	return makeReflectValue(t, zero(t))
}

func reflectKind(t types.Type) reflect.Kind {
	if t == errorType {
		// an error made by a stub (fmt.Errorf, errors.New ...): natively a pointer to some error struct
		return reflect.Ptr
	}
	switch t := t.(type) {
	case *types.Named, *types.Alias:
		return reflectKind(t.Underlying())
	case *types.Basic:
		switch t.Kind() {
		case types.Bool:
			return reflect.Bool
		case types.Int:
			return reflect.Int
		case types.Int8:
			return reflect.Int8
		case types.Int16:
			return reflect.Int16
		case types.Int32:
			return reflect.Int32
		case types.Int64:
			return reflect.Int64
		case types.Uint:
			return reflect.Uint
		case types.Uint8:
			return reflect.Uint8
		case types.Uint16:
			return reflect.Uint16
		case types.Uint32:
			return reflect.Uint32
		case types.Uint64:
			return reflect.Uint64
		case types.Uintptr:
			return reflect.Uintptr
		case types.Float32:
			return reflect.Float32
		case types.Float64:
			return reflect.Float64
		case types.Complex64:
			return reflect.Complex64
		case types.Complex128:
			return reflect.Complex128
		case types.String:
			return reflect.String
		case types.UnsafePointer:
			return reflect.UnsafePointer
		}
	case *types.Array:
		return reflect.Array
	case *types.Chan:
		return reflect.Chan
	case *types.Signature:
		return reflect.Func
	case *types.Interface:
		return reflect.Interface
	case *types.Map:
		return reflect.Map
	case *types.Pointer:
		return reflect.Ptr
	case *types.Slice:
		return reflect.Slice
	case *types.Struct:
		return reflect.Struct
	}
	panic(fmt.Sprint("unexpected type: ", t))
}

func ext۰reflect۰Value۰Kind(fr *frame, args []value) value {
	// Signature: func (reflect.Value) uint
	return uint(reflectKind(rV2T(args[0]).t))
}

func ext۰reflect۰Value۰String(fr *frame, args []value) value {
	// Signature: func (reflect.Value) string
	return toString(rV2V(args[0]))
}

func ext۰reflect۰Value۰Type(fr *frame, args []value) value {
	// Signature: func (reflect.Value) reflect.Type
	return makeReflectType(rV2T(args[0]))
}

func ext۰reflect۰Value۰Uint(fr *frame, args []value) value {
	// Signature: func (reflect.Value) uint64
	switch v := rV2V(args[0]).(type) {
	case uint:
		return uint64(v)
	case uint8:
		return uint64(v)
	case uint16:
		return uint64(v)
	case uint32:
		return uint64(v)
	case uint64:
		return uint64(v)
	case uintptr:
		return uint64(v)
	}
	panic("reflect.Value.Uint")
}

func ext۰reflect۰Value۰Len(fr *frame, args []value) value {
	// Signature: func (reflect.Value) int
	switch v := rV2V(args[0]).(type) {
	case string:
		return len(v)
	case array:
		return len(v)
	case chan value:
		return cap(v)
	case []value:
		return len(v)
	case *hashmap:
		return v.len()
	case *omap:
		return v.len()
	case symString:
		return len(v)
	default:
		panic(fmt.Sprintf("reflect.(Value).Len(%v)", v))
	}
}

func ext۰reflect۰Value۰MapIndex(fr *frame, args []value) value {
	// Signature: func (reflect.Value) Value
	tValue := rV2T(args[0]).t.Underlying().(*types.Map).Key()
	k := rV2V(args[1])
	switch m := rV2V(args[0]).(type) {
	case *omap:
		if v, ok := m.lookup(fr.i, k); ok {
			return makeReflectValue(tValue, v)
		}

	case *hashmap:
		if v := m.lookup(k.(hashable)); v != nil {
			return makeReflectValue(tValue, v)
		}

	default:
		panic(fmt.Sprintf("(reflect.Value).MapIndex(%T, %T)", m, k))
	}
	return makeReflectValue(nil, nil)
}

func ext۰reflect۰Value۰MapKeys(fr *frame, args []value) value {
	// Signature: func (reflect.Value) []Value
	var keys []value
	tKey := rV2T(args[0]).t.Underlying().(*types.Map).Key()
	switch v := rV2V(args[0]).(type) {
	case *omap:
		for _, e := range v.entries {
			keys = append(keys, makeReflectValue(tKey, e.k))
		}

	case *hashmap:
		for _, e := range v.live() {
			keys = append(keys, makeReflectValue(tKey, e.key))
		}

	default:
		panic(fmt.Sprintf("(reflect.Value).MapKeys(%T)", v))
	}
	return keys
}

func ext۰reflect۰Value۰NumField(fr *frame, args []value) value {
	// Signature: func (reflect.Value) int
	return len(rV2V(args[0]).(structure))
}

func ext۰reflect۰Value۰NumMethod(fr *frame, args []value) value {
	// Signature: func (reflect.Value) int
	return fr.i.prog.MethodSets.MethodSet(rV2T(args[0]).t).Len()
}

func ext۰reflect۰Value۰Pointer(fr *frame, args []value) value {
	// Signature: func (v reflect.Value) uintptr
	switch v := rV2V(args[0]).(type) {
	case *value:
		return uintptr(unsafe.Pointer(v))
	case chan value:
		return reflect.ValueOf(v).Pointer()
	case []value:
		return reflect.ValueOf(v).Pointer()
	case *hashmap:
		return uintptr(unsafe.Pointer(v))
	case *omap:
		return uintptr(unsafe.Pointer(v))
	case *ssa.Function:
		return uintptr(unsafe.Pointer(v))
	case *closure:
		return uintptr(unsafe.Pointer(v))
	default:
		panic(fmt.Sprintf("reflect.(Value).Pointer(%T)", v))
	}
}

func ext۰reflect۰Value۰Index(fr *frame, args []value) value {
	// Signature: func (v reflect.Value, i int) Value
	i := args[1].(int)
	t := rV2T(args[0]).t.Underlying()
	switch v := rV2V(args[0]).(type) {
	case array:
		return makeReflectValue(t.(*types.Array).Elem(), v[i])
	case []value:
		return makeReflectValue(t.(*types.Slice).Elem(), v[i])
	default:
		panic(fmt.Sprintf("reflect.(Value).Index(%T)", v))
	}
}

func ext۰reflect۰Value۰Bool(fr *frame, args []value) value {
	// Signature: func (reflect.Value) bool
	return rV2V(args[0]).(bool)
}

func ext۰reflect۰Value۰CanAddr(fr *frame, args []value) value {
	// Signature: func (v reflect.Value) bool
	// Always false for our representation.
	return false
}

func ext۰reflect۰Value۰CanInterface(fr *frame, args []value) value {
	// Signature: func (v reflect.Value) bool
	// Always true for our representation.
	return true
}

func ext۰reflect۰Value۰Elem(fr *frame, args []value) value {
	// Signature: func (v reflect.Value) reflect.Value
	switch x := rV2V(args[0]).(type) {
	case iface:
		return makeReflectValue(x.t, x.v)
	case *value:
		var v value
		if x != nil {
			v = *x
		}
		return makeReflectValue(rV2T(args[0]).t.Underlying().(*types.Pointer).Elem(), v)
	default:
		panic(fmt.Sprintf("reflect.(Value).Elem(%T)", x))
	}
}

func ext۰reflect۰Value۰Field(fr *frame, args []value) value {
	// Signature: func (v reflect.Value, i int) reflect.Value
	v := args[0]
	i := args[1].(int)
	return makeReflectValue(rV2T(v).t.Underlying().(*types.Struct).Field(i).Type(), rV2V(v).(structure)[i])
}

func ext۰reflect۰Value۰Float(fr *frame, args []value) value {
	// Signature: func (reflect.Value) float64
	switch v := rV2V(args[0]).(type) {
	case float32:
		return float64(v)
	case float64:
		return float64(v)
	}
	panic("reflect.Value.Float")
}

func ext۰reflect۰Value۰Interface(fr *frame, args []value) value {
	// Signature: func (v reflect.Value) interface{}
	return ext۰reflect۰valueInterface(fr, args)
}

func ext۰reflect۰Value۰Int(fr *frame, args []value) value {
	// Signature: func (reflect.Value) int64
	switch x := rV2V(args[0]).(type) {
	case int:
		return int64(x)
	case int8:
		return int64(x)
	case int16:
		return int64(x)
	case int32:
		return int64(x)
	case int64:
		return x
	default:
		panic(fmt.Sprintf("reflect.(Value).Int(%T)", x))
	}
}

func ext۰reflect۰Value۰IsNil(fr *frame, args []value) value {
	// Signature: func (reflect.Value) bool
	switch x := rV2V(args[0]).(type) {
	case *value:
		return x == nil
	case chan value:
		return x == nil
	case *omap:
		return x == nil
	case *hashmap:
		return x == nil
	case iface:
		return x.t == nil
	case []value:
		return x == nil
	case *ssa.Function:
		return x == nil
	case *ssa.Builtin:
		return x == nil
	case *closure:
		return x == nil
	default:
		panic(fmt.Sprintf("reflect.(Value).IsNil(%T)", x))
	}
}

func ext۰reflect۰Value۰IsValid(fr *frame, args []value) value {
	// Signature: func (reflect.Value) bool
	return rV2V(args[0]) != nil
}

func ext۰reflect۰Value۰Set(fr *frame, args []value) value {
	// TODO(adonovan): implement.
	return nil
}

func ext۰reflect۰valueInterface(fr *frame, args []value) value {
	// Signature: func (v reflect.Value, safe bool) interface{}
	v := args[0].(structure)
	return iface{rV2T(v).t, rV2V(v)}
}

func ext۰reflect۰error۰Error(fr *frame, args []value) value {
	return args[0]
}

// newMethod creates a new method of the specified name, package and receiver type.
func newMethod(pkg *ssa.Package, recvType types.Type, name string) *ssa.Function {
	// TODO(adonovan): fix: hack: currently the only part of Signature
	// that is needed is the "pointerness" of Recv.Type, and for
	// now, we'll set it to always be false since we're only
	// concerned with rtype.  Encapsulate this better.
	sig := types.NewSignature(types.NewVar(token.NoPos, nil, "recv", recvType), nil, nil, false)
	fn := pkg.Prog.NewFunction(name, sig, "fake reflect method")
	fn.Pkg = pkg
	return fn
}

func initReflect(i *interpreter) {
	i.reflectPackage = &ssa.Package{
		Prog:    i.prog,
		Pkg:     reflectTypesPackage,
		Members: make(map[string]ssa.Member),
	}

	// Clobber the type-checker's notion of reflect.Value's
	// underlying type so that it more closely matches the fake one
	// (at least in the number of fields---we lie about the type of
	// the rtype field).
	//
	// We must ensure that calls to (ssa.Value).Type() return the
	// fake type so that correct "shape" is used when allocating
	// variables, making zero values, loading, and storing.
	//
	// TODO(adonovan): obviously this is a hack.  We need a cleaner
	// way to fake the reflect package (almost---DeepEqual is fine).
	// One approach would be not to even load its source code, but
	// provide fake source files.  This would guarantee that no bad
	// information leaks into other packages.
	if r := i.prog.ImportedPackage("reflect"); r != nil {
		rV := r.Pkg.Scope().Lookup("Value").Type().(*types.Named)

		// delete bodies of the old methods
		mset := i.prog.MethodSets.MethodSet(rV)
		for j := 0; j < mset.Len(); j++ {
			i.prog.MethodValue(mset.At(j)).Blocks = nil
		}

		tEface := types.NewInterface(nil, nil).Complete()
		rV.SetUnderlying(types.NewStruct([]*types.Var{
			types.NewField(token.NoPos, r.Pkg, "t", tEface, false), // a lie
			types.NewField(token.NoPos, r.Pkg, "v", tEface, false),
		}, nil))
	}

	i.rtypeMethods = methodSet{
		"Bits":      newMethod(i.reflectPackage, rtypeType, "Bits"),
		"Elem":      newMethod(i.reflectPackage, rtypeType, "Elem"),
		"Field":     newMethod(i.reflectPackage, rtypeType, "Field"),
		"In":        newMethod(i.reflectPackage, rtypeType, "In"),
		"Kind":      newMethod(i.reflectPackage, rtypeType, "Kind"),
		"NumField":  newMethod(i.reflectPackage, rtypeType, "NumField"),
		"NumIn":     newMethod(i.reflectPackage, rtypeType, "NumIn"),
		"NumMethod": newMethod(i.reflectPackage, rtypeType, "NumMethod"),
		"NumOut":    newMethod(i.reflectPackage, rtypeType, "NumOut"),
		"Out":       newMethod(i.reflectPackage, rtypeType, "Out"),
		"Size":      newMethod(i.reflectPackage, rtypeType, "Size"),
		"String":    newMethod(i.reflectPackage, rtypeType, "String"),
	}
	registerRtypeMethods(i)
	i.errorMethods = methodSet{
		"Error": newMethod(i.reflectPackage, errorType, "Error"),
	}
}
