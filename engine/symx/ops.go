// Copyright 2013 The Go Authors. All rights reserved.
// Use of this source code is governed by a BSD-style
// license that can be found in the LICENSE file.

package symx

import (
	"bytes"
	"fmt"
	"go/constant"
	"go/token"
	"go/types"
	"os"
	"strings"
	"unsafe"

	"golang.org/x/tools/go/ssa"
)

// If the target program panics, the interpreter panics with this type.
type targetPanic struct {
	v value
}

func (p targetPanic) String() string {
	return toString(p.v)
}

// If the target program calls exit, the interpreter panics with this type.
type exitPanic int

// constValue returns the value of the constant with the
// dynamic type tag appropriate for c.Type().
func constValue(c *ssa.Const) value {
	if c.Value == nil {
		return zero(c.Type()) // typed zero
	}
	// c is not a type parameter so it's underlying type is basic.

	if t, ok := c.Type().Underlying().(*types.Basic); ok {
		// TODO(adonovan): eliminate untyped constants from SSA form.
		switch t.Kind() {
		case types.Bool, types.UntypedBool:
			return constant.BoolVal(c.Value)
		case types.Int, types.UntypedInt:
			// Assume sizeof(int) is same on host and target.
			return int(c.Int64())
		case types.Int8:
			return int8(c.Int64())
		case types.Int16:
			return int16(c.Int64())
		case types.Int32, types.UntypedRune:
			return int32(c.Int64())
		case types.Int64:
			return c.Int64()
		case types.Uint:
			// Assume sizeof(uint) is same on host and target.
			return uint(c.Uint64())
		case types.Uint8:
			return uint8(c.Uint64())
		case types.Uint16:
			return uint16(c.Uint64())
		case types.Uint32:
			return uint32(c.Uint64())
		case types.Uint64:
			return c.Uint64()
		case types.Uintptr:
			// Assume sizeof(uintptr) is same on host and target.
			return uintptr(c.Uint64())
		case types.Float32:
			return float32(c.Float64())
		case types.Float64, types.UntypedFloat:
			return c.Float64()
		case types.Complex64:
			return complex64(c.Complex128())
		case types.Complex128, types.UntypedComplex:
			return c.Complex128()
		case types.String, types.UntypedString:
			if c.Value.Kind() == constant.String {
				return constant.StringVal(c.Value)
			}
			return string(rune(c.Int64()))
		}
	}

	panic(fmt.Sprintf("constValue: %s", c))
}

// fitsInt returns true if x fits in type int according to sizes.
func fitsInt(x int64, sizes types.Sizes) bool {
	intSize := sizes.Sizeof(types.Typ[types.Int])
	if intSize < sizes.Sizeof(types.Typ[types.Int64]) {
		maxInt := int64(1)<<((intSize*8)-1) - 1
		minInt := -int64(1) << ((intSize * 8) - 1)
		return minInt <= x && x <= maxInt
	}
	return true
}

// asInt64 converts x, which must be an integer, to an int64.
//
// Callers that need a value directly usable as an int should combine this with fitsInt().
func asInt64(x value) int64 {
	switch x := x.(type) {
	case int:
		return int64(x)
	case int8:
		return int64(x)
	case int16:
		return int64(x)
	case int32:
		return int64(x)
	case int64:
		return x
	case uint:
		return int64(x)
	case uint8:
		return int64(x)
	case uint16:
		return int64(x)
	case uint32:
		return int64(x)
	case uint64:
		return int64(x)
	case uintptr:
		return int64(x)
	}
	panic(fmt.Sprintf("cannot convert %T to int64", x))
}

// asUint64 converts x, which must be an unsigned integer, to a uint64
// suitable for use as a bitwise shift count.
func asUint64(x value) uint64 {
	switch x := x.(type) {
	case uint:
		return uint64(x)
	case uint8:
		return uint64(x)
	case uint16:
		return uint64(x)
	case uint32:
		return uint64(x)
	case uint64:
		return x
	case uintptr:
		return uint64(x)
	}
	panic(fmt.Sprintf("cannot convert %T to uint64", x))
}

// asUnsigned returns the value of x, which must be an integer type, as its equivalent unsigned type,
// and returns true if x is non-negative.
func asUnsigned(x value) (value, bool) {
	switch x := x.(type) {
	case int:
		return uint(x), x >= 0
	case int8:
		return uint8(x), x >= 0
	case int16:
		return uint16(x), x >= 0
	case int32:
		return uint32(x), x >= 0
	case int64:
		return uint64(x), x >= 0
	case uint, uint8, uint32, uint64, uintptr:
		return x, true
	}
	panic(fmt.Sprintf("cannot convert %T to unsigned", x))
}

// zero returns a new "zero" value of the specified type.
func zero(t types.Type) value {
	switch t := t.(type) {
	case *types.Basic:
		if t.Kind() == types.UntypedNil {
			panic("untyped nil has no zero value")
		}
		if t.Info()&types.IsUntyped != 0 {
			// TODO(adonovan): make it an invariant that
			// this is unreachable.  Currently some
			// constants have 'untyped' types when they
			// should be defaulted by the typechecker.
			t = types.Default(t).(*types.Basic)
		}
		switch t.Kind() {
		case types.Bool:
			return false
		case types.Int:
			return int(0)
		case types.Int8:
			return int8(0)
		case types.Int16:
			return int16(0)
		case types.Int32:
			return int32(0)
		case types.Int64:
			return int64(0)
		case types.Uint:
			return uint(0)
		case types.Uint8:
			return uint8(0)
		case types.Uint16:
			return uint16(0)
		case types.Uint32:
			return uint32(0)
		case types.Uint64:
			return uint64(0)
		case types.Uintptr:
			return uintptr(0)
		case types.Float32:
			return float32(0)
		case types.Float64:
			return float64(0)
		case types.Complex64:
			return complex64(0)
		case types.Complex128:
			return complex128(0)
		case types.String:
			return ""
		case types.UnsafePointer:
			return unsafe.Pointer(nil)
		default:
			panic(fmt.Sprint("zero for unexpected type:", t))
		}
	case *types.Pointer:
		return (*value)(nil)
	case *types.Array:
		a := make(array, t.Len())
		for i := range a {
			a[i] = zero(t.Elem())
		}
		return a
	case *types.Named:
		if o := t.Obj(); o != nil && o.Name() == "Value" && o.Pkg() != nil && o.Pkg().Path() == "reflect" {
			return structure{rtype{nil}, nil}
		}
		return zero(t.Underlying())
	case *types.Alias:
		return zero(types.Unalias(t))
	case *types.Interface:
		return iface{} // nil type, methodset and value
	case *types.Slice:
		return []value(nil)
	case *types.Struct:
		s := make(structure, t.NumFields())
		for i := range s {
			s[i] = zero(t.Field(i).Type())
		}
		return s
	case *types.Tuple:
		if t.Len() == 1 {
			return zero(t.At(0).Type())
		}
		s := make(tuple, t.Len())
		for i := range s {
			s[i] = zero(t.At(i).Type())
		}
		return s
	case *types.Chan:
		return chan value(nil)
	case *types.Map:
		if usesBuiltinMap(t.Key()) {
			return (*omap)(nil)
		}
		return (*hashmap)(nil)
	case *types.Signature:
		return (*ssa.Function)(nil)
	}
	panic(fmt.Sprint("zero: unexpected ", t))
}

// slice returns x[lo:hi:max].  Any of lo, hi and max may be nil.
func slice(x, lo, hi, max value) value {
	var Len, Cap int
	switch x := x.(type) {
	case string:
		Len = len(x)
	case symString:
		Len = len(x)
	case []value:
		Len = len(x)
		Cap = cap(x)
	case *value: // *array
		a := (*x).(array)
		Len = len(a)
		Cap = cap(a)
	}

	l := int64(0)
	if lo != nil {
		l = asInt64(lo)
	}

	h := int64(Len)
	if hi != nil {
		h = asInt64(hi)
	}

	m := int64(Cap)
	if max != nil {
		m = asInt64(max)
	}

	switch x := x.(type) {
	case string:
		if l < 0 || h < l || h > int64(Len) {
			panic(runtimeErrorString(fmt.Sprintf("slice bounds out of range [%d:%d] with length %d", l, h, Len)))
		}
		return x[l:h]
	case symString:
		if l < 0 || h < l || h > int64(len(x)) {
			panic(runtimeErrorString(fmt.Sprintf("slice bounds out of range [%d:%d] with length %d", l, h, len(x))))
		}
		return mkString([]value(x)[l:h])
	case []value:
		if l < 0 || h < l || m < h || m > int64(Cap) {
			panic(runtimeErrorString(fmt.Sprintf("slice bounds out of range [%d:%d:%d] with capacity %d", l, h, m, Cap)))
		}
		return x[l:h:m]
	case *value: // *array
		a := (*x).(array)
		if l < 0 || h < l || m < h || m > int64(Cap) {
			panic(runtimeErrorString(fmt.Sprintf("slice bounds out of range [%d:%d:%d] with capacity %d", l, h, m, Cap)))
		}
		return []value(a)[l:h:m]
	}
	panic(fmt.Sprintf("slice: unexpected X type: %T", x))
}

// lookup returns x[idx] where x is a map.
func (i *interpreter) lookup(instr *ssa.Lookup, x, idx value) value {
	switch x := x.(type) { // map or string
	case *omap, *hashmap:
		var v value
		var ok bool
		switch x := x.(type) {
		case *omap:
			v, ok = x.lookup(i, idx)
		case *hashmap:
			v = x.lookup(idx.(hashable))
			ok = v != nil
		}
		if !ok {
			v = zero(instr.X.Type().Underlying().(*types.Map).Elem())
		}
		if instr.CommaOk {
			v = tuple{v, ok}
		}
		return v
	}
	panic(fmt.Sprintf("unexpected x type in Lookup: %T", x))
}

// binop implements all arithmetic and logical binary operators for
// numeric datatypes and strings.  Both operands must have identical
// dynamic type.
func binop(op token.Token, t types.Type, x, y value) value {
	switch op {
	case token.ADD:
		switch x.(type) {
		case int:
			return x.(int) + y.(int)
		case int8:
			return x.(int8) + y.(int8)
		case int16:
			return x.(int16) + y.(int16)
		case int32:
			return x.(int32) + y.(int32)
		case int64:
			return x.(int64) + y.(int64)
		case uint:
			return x.(uint) + y.(uint)
		case uint8:
			return x.(uint8) + y.(uint8)
		case uint16:
			return x.(uint16) + y.(uint16)
		case uint32:
			return x.(uint32) + y.(uint32)
		case uint64:
			return x.(uint64) + y.(uint64)
		case uintptr:
			return x.(uintptr) + y.(uintptr)
		case float32:
			return x.(float32) + y.(float32)
		case float64:
			return x.(float64) + y.(float64)
		case complex64:
			return x.(complex64) + y.(complex64)
		case complex128:
			return x.(complex128) + y.(complex128)
		case string:
			return x.(string) + y.(string)
		}

	case token.SUB:
		switch x.(type) {
		case int:
			return x.(int) - y.(int)
		case int8:
			return x.(int8) - y.(int8)
		case int16:
			return x.(int16) - y.(int16)
		case int32:
			return x.(int32) - y.(int32)
		case int64:
			return x.(int64) - y.(int64)
		case uint:
			return x.(uint) - y.(uint)
		case uint8:
			return x.(uint8) - y.(uint8)
		case uint16:
			return x.(uint16) - y.(uint16)
		case uint32:
			return x.(uint32) - y.(uint32)
		case uint64:
			return x.(uint64) - y.(uint64)
		case uintptr:
			return x.(uintptr) - y.(uintptr)
		case float32:
			return x.(float32) - y.(float32)
		case float64:
			return x.(float64) - y.(float64)
		case complex64:
			return x.(complex64) - y.(complex64)
		case complex128:
			return x.(complex128) - y.(complex128)
		}

	case token.MUL:
		switch x.(type) {
		case int:
			return x.(int) * y.(int)
		case int8:
			return x.(int8) * y.(int8)
		case int16:
			return x.(int16) * y.(int16)
		case int32:
			return x.(int32) * y.(int32)
		case int64:
			return x.(int64) * y.(int64)
		case uint:
			return x.(uint) * y.(uint)
		case uint8:
			return x.(uint8) * y.(uint8)
		case uint16:
			return x.(uint16) * y.(uint16)
		case uint32:
			return x.(uint32) * y.(uint32)
		case uint64:
			return x.(uint64) * y.(uint64)
		case uintptr:
			return x.(uintptr) * y.(uintptr)
		case float32:
			return x.(float32) * y.(float32)
		case float64:
			return x.(float64) * y.(float64)
		case complex64:
			return x.(complex64) * y.(complex64)
		case complex128:
			return x.(complex128) * y.(complex128)
		}

	case token.QUO:
		switch x.(type) {
		case int:
			return x.(int) / y.(int)
		case int8:
			return x.(int8) / y.(int8)
		case int16:
			return x.(int16) / y.(int16)
		case int32:
			return x.(int32) / y.(int32)
		case int64:
			return x.(int64) / y.(int64)
		case uint:
			return x.(uint) / y.(uint)
		case uint8:
			return x.(uint8) / y.(uint8)
		case uint16:
			return x.(uint16) / y.(uint16)
		case uint32:
			return x.(uint32) / y.(uint32)
		case uint64:
			return x.(uint64) / y.(uint64)
		case uintptr:
			return x.(uintptr) / y.(uintptr)
		case float32:
			return x.(float32) / y.(float32)
		case float64:
			return x.(float64) / y.(float64)
		case complex64:
			return x.(complex64) / y.(complex64)
		case complex128:
			return x.(complex128) / y.(complex128)
		}

	case token.REM:
		switch x.(type) {
		case int:
			return x.(int) % y.(int)
		case int8:
			return x.(int8) % y.(int8)
		case int16:
			return x.(int16) % y.(int16)
		case int32:
			return x.(int32) % y.(int32)
		case int64:
			return x.(int64) % y.(int64)
		case uint:
			return x.(uint) % y.(uint)
		case uint8:
			return x.(uint8) % y.(uint8)
		case uint16:
			return x.(uint16) % y.(uint16)
		case uint32:
			return x.(uint32) % y.(uint32)
		case uint64:
			return x.(uint64) % y.(uint64)
		case uintptr:
			return x.(uintptr) % y.(uintptr)
		}

	case token.AND:
		switch x.(type) {
		case int:
			return x.(int) & y.(int)
		case int8:
			return x.(int8) & y.(int8)
		case int16:
			return x.(int16) & y.(int16)
		case int32:
			return x.(int32) & y.(int32)
		case int64:
			return x.(int64) & y.(int64)
		case uint:
			return x.(uint) & y.(uint)
		case uint8:
			return x.(uint8) & y.(uint8)
		case uint16:
			return x.(uint16) & y.(uint16)
		case uint32:
			return x.(uint32) & y.(uint32)
		case uint64:
			return x.(uint64) & y.(uint64)
		case uintptr:
			return x.(uintptr) & y.(uintptr)
		}

	case token.OR:
		switch x.(type) {
		case int:
			return x.(int) | y.(int)
		case int8:
			return x.(int8) | y.(int8)
		case int16:
			return x.(int16) | y.(int16)
		case int32:
			return x.(int32) | y.(int32)
		case int64:
			return x.(int64) | y.(int64)
		case uint:
			return x.(uint) | y.(uint)
		case uint8:
			return x.(uint8) | y.(uint8)
		case uint16:
			return x.(uint16) | y.(uint16)
		case uint32:
			return x.(uint32) | y.(uint32)
		case uint64:
			return x.(uint64) | y.(uint64)
		case uintptr:
			return x.(uintptr) | y.(uintptr)
		}

	case token.XOR:
		switch x.(type) {
		case int:
			return x.(int) ^ y.(int)
		case int8:
			return x.(int8) ^ y.(int8)
		case int16:
			return x.(int16) ^ y.(int16)
		case int32:
			return x.(int32) ^ y.(int32)
		case int64:
			return x.(int64) ^ y.(int64)
		case uint:
			return x.(uint) ^ y.(uint)
		case uint8:
			return x.(uint8) ^ y.(uint8)
		case uint16:
			return x.(uint16) ^ y.(uint16)
		case uint32:
			return x.(uint32) ^ y.(uint32)
		case uint64:
			return x.(uint64) ^ y.(uint64)
		case uintptr:
			return x.(uintptr) ^ y.(uintptr)
		}

	case token.AND_NOT:
		switch x.(type) {
		case int:
			return x.(int) &^ y.(int)
		case int8:
			return x.(int8) &^ y.(int8)
		case int16:
			return x.(int16) &^ y.(int16)
		case int32:
			return x.(int32) &^ y.(int32)
		case int64:
			return x.(int64) &^ y.(int64)
		case uint:
			return x.(uint) &^ y.(uint)
		case uint8:
			return x.(uint8) &^ y.(uint8)
		case uint16:
			return x.(uint16) &^ y.(uint16)
		case uint32:
			return x.(uint32) &^ y.(uint32)
		case uint64:
			return x.(uint64) &^ y.(uint64)
		case uintptr:
			return x.(uintptr) &^ y.(uintptr)
		}

	case token.SHL:
		u, ok := asUnsigned(y)
		if !ok {
			panic("negative shift amount")
		}
		y := asUint64(u)
		switch x.(type) {
		case int:
			return x.(int) << y
		case int8:
			return x.(int8) << y
		case int16:
			return x.(int16) << y
		case int32:
			return x.(int32) << y
		case int64:
			return x.(int64) << y
		case uint:
			return x.(uint) << y
		case uint8:
			return x.(uint8) << y
		case uint16:
			return x.(uint16) << y
		case uint32:
			return x.(uint32) << y
		case uint64:
			return x.(uint64) << y
		case uintptr:
			return x.(uintptr) << y
		}

	case token.SHR:
		u, ok := asUnsigned(y)
		if !ok {
			panic("negative shift amount")
		}
		y := asUint64(u)
		switch x.(type) {
		case int:
			return x.(int) >> y
		case int8:
			return x.(int8) >> y
		case int16:
			return x.(int16) >> y
		case int32:
			return x.(int32) >> y
		case int64:
			return x.(int64) >> y
		case uint:
			return x.(uint) >> y
		case uint8:
			return x.(uint8) >> y
		case uint16:
			return x.(uint16) >> y
		case uint32:
			return x.(uint32) >> y
		case uint64:
			return x.(uint64) >> y
		case uintptr:
			return x.(uintptr) >> y
		}

	case token.LSS:
		switch x.(type) {
		case int:
			return x.(int) < y.(int)
		case int8:
			return x.(int8) < y.(int8)
		case int16:
			return x.(int16) < y.(int16)
		case int32:
			return x.(int32) < y.(int32)
		case int64:
			return x.(int64) < y.(int64)
		case uint:
			return x.(uint) < y.(uint)
		case uint8:
			return x.(uint8) < y.(uint8)
		case uint16:
			return x.(uint16) < y.(uint16)
		case uint32:
			return x.(uint32) < y.(uint32)
		case uint64:
			return x.(uint64) < y.(uint64)
		case uintptr:
			return x.(uintptr) < y.(uintptr)
		case float32:
			return x.(float32) < y.(float32)
		case float64:
			return x.(float64) < y.(float64)
		case string:
			return x.(string) < y.(string)
		}

	case token.LEQ:
		switch x.(type) {
		case int:
			return x.(int) <= y.(int)
		case int8:
			return x.(int8) <= y.(int8)
		case int16:
			return x.(int16) <= y.(int16)
		case int32:
			return x.(int32) <= y.(int32)
		case int64:
			return x.(int64) <= y.(int64)
		case uint:
			return x.(uint) <= y.(uint)
		case uint8:
			return x.(uint8) <= y.(uint8)
		case uint16:
			return x.(uint16) <= y.(uint16)
		case uint32:
			return x.(uint32) <= y.(uint32)
		case uint64:
			return x.(uint64) <= y.(uint64)
		case uintptr:
			return x.(uintptr) <= y.(uintptr)
		case float32:
			return x.(float32) <= y.(float32)
		case float64:
			return x.(float64) <= y.(float64)
		case string:
			return x.(string) <= y.(string)
		}

	case token.EQL:
		return eqnilConcrete(t, x, y)

	case token.NEQ:
		return !eqnilConcrete(t, x, y)

	case token.GTR:
		switch x.(type) {
		case int:
			return x.(int) > y.(int)
		case int8:
			return x.(int8) > y.(int8)
		case int16:
			return x.(int16) > y.(int16)
		case int32:
			return x.(int32) > y.(int32)
		case int64:
			return x.(int64) > y.(int64)
		case uint:
			return x.(uint) > y.(uint)
		case uint8:
			return x.(uint8) > y.(uint8)
		case uint16:
			return x.(uint16) > y.(uint16)
		case uint32:
			return x.(uint32) > y.(uint32)
		case uint64:
			return x.(uint64) > y.(uint64)
		case uintptr:
			return x.(uintptr) > y.(uintptr)
		case float32:
			return x.(float32) > y.(float32)
		case float64:
			return x.(float64) > y.(float64)
		case string:
			return x.(string) > y.(string)
		}

	case token.GEQ:
		switch x.(type) {
		case int:
			return x.(int) >= y.(int)
		case int8:
			return x.(int8) >= y.(int8)
		case int16:
			return x.(int16) >= y.(int16)
		case int32:
			return x.(int32) >= y.(int32)
		case int64:
			return x.(int64) >= y.(int64)
		case uint:
			return x.(uint) >= y.(uint)
		case uint8:
			return x.(uint8) >= y.(uint8)
		case uint16:
			return x.(uint16) >= y.(uint16)
		case uint32:
			return x.(uint32) >= y.(uint32)
		case uint64:
			return x.(uint64) >= y.(uint64)
		case uintptr:
			return x.(uintptr) >= y.(uintptr)
		case float32:
			return x.(float32) >= y.(float32)
		case float64:
			return x.(float64) >= y.(float64)
		case string:
			return x.(string) >= y.(string)
		}
	}
	panic(fmt.Sprintf("invalid binary op: %T %s %T", x, op, y))
}

// eqnil returns the comparison x == y using the equivalence relation
// appropriate for type t.
// If t is a reference type, at most one of x or y may be a nil value
// of that type.
func eqnilConcrete(t types.Type, x, y value) bool {
	switch t.Underlying().(type) {
	case *types.Map, *types.Signature, *types.Slice:
		// Since these types don't support comparison,
		// one of the operands must be a literal nil.
		switch x := x.(type) {
		case *hashmap:
			return (x != nil) == (y.(*hashmap) != nil)
		case *omap:
			return (x != nil) == (y.(*omap) != nil)
		case *ssa.Function:
			switch y := y.(type) {
			case *ssa.Function:
				return (x != nil) == (y != nil)
			case *closure:
				return true
			}
		case *closure:
			return (x != nil) == (y.(*ssa.Function) != nil)
		case []value:
			return (x != nil) == (y.([]value) != nil)
		}
		panic(fmt.Sprintf("eqnil(%s): illegal dynamic type: %T", t, x))
	}

	return equals(t, x, y)
}

func unop(instr *ssa.UnOp, x value) value {
	switch instr.Op {
	case token.ARROW: // receive
		v, ok := <-x.(chan value)
		if !ok {
			v = zero(instr.X.Type().Underlying().(*types.Chan).Elem())
		}
		if instr.CommaOk {
			v = tuple{v, ok}
		}
		return v
	case token.SUB:
		switch x := x.(type) {
		case int:
			return -x
		case int8:
			return -x
		case int16:
			return -x
		case int32:
			return -x
		case int64:
			return -x
		case uint:
			return -x
		case uint8:
			return -x
		case uint16:
			return -x
		case uint32:
			return -x
		case uint64:
			return -x
		case uintptr:
			return -x
		case float32:
			return -x
		case float64:
			return -x
		case complex64:
			return -x
		case complex128:
			return -x
		}
	case token.MUL:
		return load(mustDeref(instr.X.Type()), x.(*value))
	case token.NOT:
		return !x.(bool)
	case token.XOR:
		switch x := x.(type) {
		case int:
			return ^x
		case int8:
			return ^x
		case int16:
			return ^x
		case int32:
			return ^x
		case int64:
			return ^x
		case uint:
			return ^x
		case uint8:
			return ^x
		case uint16:
			return ^x
		case uint32:
			return ^x
		case uint64:
			return ^x
		case uintptr:
			return ^x
		}
	}
	panic(fmt.Sprintf("invalid unary op %s %T", instr.Op, x))
}

// typeAssert checks whether dynamic type of itf is instr.AssertedType.
// It returns the extracted value on success, and panics on failure,
// unless instr.CommaOk, in which case it always returns a "value,ok" tuple.
func typeAssert(i *interpreter, instr *ssa.TypeAssert, itf iface) value {
	var v value
	err := ""
	if itf.t == nil {
		err = fmt.Sprintf("interface conversion: interface is nil, not %s", instr.AssertedType)

	} else if idst, ok := instr.AssertedType.Underlying().(*types.Interface); ok {
		v = itf
		err = checkInterface(i, idst, itf)

	} else if types.Identical(itf.t, instr.AssertedType) {
		v = itf.v // extract value

	} else {
		err = fmt.Sprintf("interface conversion: interface is %s, not %s", itf.t, instr.AssertedType)
	}
	// Note: if instr.Underlying==true ever becomes reachable from interp check that
	// types.Identical(itf.t.Underlying(), instr.AssertedType)

	if err != "" {
		if !instr.CommaOk {
			panic(err)
		}
		return tuple{zero(instr.AssertedType), false}
	}
	if instr.CommaOk {
		return tuple{v, true}
	}
	return v
}

// This variable is no longer used but remains to prevent build breakage.
var CapturedOutput *bytes.Buffer

// callBuiltin interprets a call to builtin fn with arguments args,
// returning its result.
func callBuiltin(caller *frame, callpos token.Pos, fn *ssa.Builtin, args []value) value {
	switch fn.Name() {
	case "append":
		if len(args) == 1 {
			return args[0]
		}
		if isStringValue(args[1]) {
			// append([]byte, ...string) []byte
			arg0 := args[0].([]value)
			arg0 = caller.i.appendMon(caller, arg0, strBytes(args[1]))
			return arg0
		}
		// append([]T, ...[]T) []T
		return caller.i.appendMon(caller, args[0].([]value), args[1].([]value))

	case "copy": // copy([]T, []T) int or copy([]byte, string) int
		src := args[1]
		if isStringValue(src) {
			src = strBytes(src)
		}
		if caller.i.ex != nil && caller.i.ex.StoreMon != nil {
			caller.i.ex.StoreMon.onCopy(caller, args[0].([]value))
		}
		if caller.i.ex != nil && caller.i.ex.Guard != nil && len(args[0].([]value)) > 0 && len(src.([]value)) > 0 {
			caller.i.ex.Guard.onSlice(caller, args[0].([]value), 0, "copy")
		}
		return copy(args[0].([]value), src.([]value))

	case "clear": // clear(map) / clear(slice)
		switch x := args[0].(type) {
		case *omap:
			if x != nil {
				x.entries = nil
				x.idx = map[value]int{}
			}
		case *hashmap:
			if x != nil {
				for _, e := range x.order {
					e.deleted = true
				}
				x.table = map[int]*entry{}
				x.order = nil
				x.length = 0
			}
		case []value:
			if len(x) > 0 {
				et := fn.Type().(*types.Signature).Params().At(0).Type().Underlying().(*types.Slice).Elem()
				for k := range x {
					x[k] = zero(et)
				}
			}
		default:
			panic(engineError(fmt.Sprintf("clear: %T", x)))
		}
		return nil

	case "close": // close(chan T)
		close(args[0].(chan value))
		return nil

	case "delete": // delete(map[K]value, K)
		if caller.i.ex != nil && caller.i.ex.StoreMon != nil {
			caller.i.ex.StoreMon.onMapUpdate(caller, nil, args[0])
		}
		if caller.i.ex != nil && caller.i.ex.Guard != nil {
			caller.i.ex.Guard.onMapUpdate(caller, args[0])
		}
		switch m := args[0].(type) {
		case *omap:
			m.delete(caller.i, args[1])
		case *hashmap:
			m.delete(args[1].(hashable))
		default:
			panic(fmt.Sprintf("illegal map type: %T", m))
		}
		return nil

	case "print", "println": // print(any, ...)
		ln := fn.Name() == "println"
		var buf bytes.Buffer
		for i, arg := range args {
			if i > 0 && ln {
				buf.WriteRune(' ')
			}
			buf.WriteString(toString(arg))
		}
		if ln {
			buf.WriteRune('\n')
		}
		os.Stderr.Write(buf.Bytes())
		return nil

	case "len":
		switch x := args[0].(type) {
		case string:
			return len(x)
		case symString:
			return len(x)
		case array:
			return len(x)
		case *value:
			return len((*x).(array))
		case []value:
			return len(x)
		case *omap:
			return x.len()
		case *hashmap:
			return x.len()
		case chan value:
			return len(x)
		default:
			panic(fmt.Sprintf("len: illegal operand: %T", x))
		}

	case "cap":
		switch x := args[0].(type) {
		case array:
			return cap(x)
		case *value:
			return cap((*x).(array))
		case []value:
			return cap(x)
		case chan value:
			return cap(x)
		default:
			panic(fmt.Sprintf("cap: illegal operand: %T", x))
		}

	case "min":
		return foldLeft(min, args)
	case "max":
		return foldLeft(max, args)

	case "real":
		switch c := args[0].(type) {
		case complex64:
			return real(c)
		case complex128:
			return real(c)
		default:
			panic(fmt.Sprintf("real: illegal operand: %T", c))
		}

	case "imag":
		switch c := args[0].(type) {
		case complex64:
			return imag(c)
		case complex128:
			return imag(c)
		default:
			panic(fmt.Sprintf("imag: illegal operand: %T", c))
		}

	case "complex":
		switch f := args[0].(type) {
		case float32:
			return complex(f, args[1].(float32))
		case float64:
			return complex(f, args[1].(float64))
		default:
			panic(fmt.Sprintf("complex: illegal operand: %T", f))
		}

	case "panic":
		// ssa.Panic handles most cases; this is only for "go
		// panic" or "defer panic".
		panic(targetPanic{args[0]})

	case "recover":
		return doRecover(caller)

	case "ssa:wrapnilchk":
		recv := args[0]
		if recv.(*value) == nil {
			recvType := args[1]
			methodName := args[2]
			panic(fmt.Sprintf("value method (%s).%s called using nil *%s pointer",
				recvType, methodName, recvType))
		}
		return recv

	case "ssa:deferstack":
		return &caller.defers
	}

	panic("unknown built-in: " + fn.Name())
}

func (i *interpreter) rangeIter(x value, t types.Type) iter {
	switch x := x.(type) {
	case *omap:
		var ks, vs []value
		if x != nil {
			for _, e := range x.entries {
				ks = append(ks, e.k)
				vs = append(vs, e.v)
			}
		}
		return i.mapIterFor(ks, vs)
	case *hashmap:
		var ks, vs []value
		for _, e := range x.live() {
			ks = append(ks, e.key)
			vs = append(vs, e.value)
		}
		return i.mapIterFor(ks, vs)
	case string:
		return &stringIter{Reader: strings.NewReader(x)}
	case symString:
		return &symStringIter{i: i, b: []value(x)}
	}
	panic(fmt.Sprintf("cannot range over %T", x))
}

// widen widens a basic typed value x to the widest type of its
// category, one of:
//
//	bool, int64, uint64, float64, complex128, string.
//
// This is inefficient but reduces the size of the cross-product of
// cases we have to consider.
func widen(x value) value {
	switch y := x.(type) {
	case bool, int64, uint64, float64, complex128, string, unsafe.Pointer:
		return x
	case int:
		return int64(y)
	case int8:
		return int64(y)
	case int16:
		return int64(y)
	case int32:
		return int64(y)
	case uint:
		return uint64(y)
	case uint8:
		return uint64(y)
	case uint16:
		return uint64(y)
	case uint32:
		return uint64(y)
	case uintptr:
		return uint64(y)
	case float32:
		return float64(y)
	case complex64:
		return complex128(y)
	}
	panic(fmt.Sprintf("cannot widen %T", x))
}

// conv converts the value x of type t_src to type t_dst and returns
// the result.
// Possible cases are described with the ssa.Convert operator.
func conv(t_dst, t_src types.Type, x value) value {
	ut_src := t_src.Underlying()
	ut_dst := t_dst.Underlying()

	// Destination type is not an "untyped" type.
	if b, ok := ut_dst.(*types.Basic); ok && b.Info()&types.IsUntyped != 0 {
		panic("oops: conversion to 'untyped' type: " + b.String())
	}

	// Nor is it an interface type.
	if _, ok := ut_dst.(*types.Interface); ok {
		if _, ok := ut_src.(*types.Interface); ok {
			panic("oops: Convert should be ChangeInterface")
		} else {
			panic("oops: Convert should be MakeInterface")
		}
	}

	// Remaining conversions:
	//    + untyped string/number/bool constant to a specific
	//      representation.
	//    + conversions between non-complex numeric types.
	//    + conversions between complex numeric types.
	//    + integer/[]byte/[]rune -> string.
	//    + string -> []byte/[]rune.
	//
	// All are treated the same: first we extract the value to the
	// widest representation (int64, uint64, float64, complex128,
	// or string), then we convert it to the desired type.

	switch ut_src := ut_src.(type) {
	case *types.Pointer:
		switch ut_dst := ut_dst.(type) {
		case *types.Basic:
			// *value to unsafe.Pointer?
			if ut_dst.Kind() == types.UnsafePointer {
				return unsafe.Pointer(x.(*value))
			}
		}

	case *types.Slice:
		// []byte or []rune -> string
		switch ut_src.Elem().Underlying().(*types.Basic).Kind() {
		case types.Byte:
			x := x.([]value)
			b := make([]byte, 0, len(x))
			for i := range x {
				b = append(b, x[i].(byte))
			}
			return string(b)

		case types.Rune:
			x := x.([]value)
			r := make([]rune, 0, len(x))
			for i := range x {
				r = append(r, x[i].(rune))
			}
			return string(r)
		}

	case *types.Basic:
		x = widen(x)

		// integer -> string?
		if ut_src.Info()&types.IsInteger != 0 {
			if ut_dst, ok := ut_dst.(*types.Basic); ok && ut_dst.Kind() == types.String {
				return fmt.Sprintf("%c", x)
			}
		}

		// string -> []rune, []byte or string?
		if s, ok := x.(string); ok {
			switch ut_dst := ut_dst.(type) {
			case *types.Slice:
				res := []value{} // []byte("") is empty but not nil
				switch ut_dst.Elem().Underlying().(*types.Basic).Kind() {
				case types.Rune:
					for _, r := range []rune(s) {
						res = append(res, r)
					}
					return res
				case types.Byte:
					for _, b := range []byte(s) {
						res = append(res, b)
					}
					return res
				}
			case *types.Basic:
				if ut_dst.Kind() == types.String {
					return x.(string)
				}
			}
			break // fail: no other conversions for string
		}

		// unsafe.Pointer -> *value
		if ut_src.Kind() == types.UnsafePointer {
			// TODO(adonovan): this is wrong and cannot
			// really be fixed with the current design.
			//
			// return (*value)(x.(unsafe.Pointer))
			// creates a new pointer of a different
			// type but the underlying interface value
			// knows its "true" type and so cannot be
			// meaningfully used through the new pointer.
			//
			// To make this work, the interpreter needs to
			// simulate the memory layout of a real
			// compiled implementation.
			//
			// To at least preserve type-safety, we'll
			// just return the zero value of the
			// destination type.
			return zero(t_dst)
		}

		// Conversions between complex numeric types?
		if ut_src.Info()&types.IsComplex != 0 {
			switch ut_dst.(*types.Basic).Kind() {
			case types.Complex64:
				return complex64(x.(complex128))
			case types.Complex128:
				return x.(complex128)
			}
			break // fail: no other conversions for complex
		}

		// Conversions between non-complex numeric types?
		if ut_src.Info()&types.IsNumeric != 0 {
			kind := ut_dst.(*types.Basic).Kind()
			switch x := x.(type) {
			case int64: // signed integer -> numeric?
				switch kind {
				case types.Int:
					return int(x)
				case types.Int8:
					return int8(x)
				case types.Int16:
					return int16(x)
				case types.Int32:
					return int32(x)
				case types.Int64:
					return int64(x)
				case types.Uint:
					return uint(x)
				case types.Uint8:
					return uint8(x)
				case types.Uint16:
					return uint16(x)
				case types.Uint32:
					return uint32(x)
				case types.Uint64:
					return uint64(x)
				case types.Uintptr:
					return uintptr(x)
				case types.Float32:
					return float32(x)
				case types.Float64:
					return float64(x)
				}

			case uint64: // unsigned integer -> numeric?
				switch kind {
				case types.Int:
					return int(x)
				case types.Int8:
					return int8(x)
				case types.Int16:
					return int16(x)
				case types.Int32:
					return int32(x)
				case types.Int64:
					return int64(x)
				case types.Uint:
					return uint(x)
				case types.Uint8:
					return uint8(x)
				case types.Uint16:
					return uint16(x)
				case types.Uint32:
					return uint32(x)
				case types.Uint64:
					return uint64(x)
				case types.Uintptr:
					return uintptr(x)
				case types.Float32:
					return float32(x)
				case types.Float64:
					return float64(x)
				}

			case float64: // floating point -> numeric?
				switch kind {
				case types.Int:
					return int(x)
				case types.Int8:
					return int8(x)
				case types.Int16:
					return int16(x)
				case types.Int32:
					return int32(x)
				case types.Int64:
					return int64(x)
				case types.Uint:
					return uint(x)
				case types.Uint8:
					return uint8(x)
				case types.Uint16:
					return uint16(x)
				case types.Uint32:
					return uint32(x)
				case types.Uint64:
					return uint64(x)
				case types.Uintptr:
					return uintptr(x)
				case types.Float32:
					return float32(x)
				case types.Float64:
					return float64(x)
				}
			}
		}
	}

	panic(fmt.Sprintf("unsupported conversion: %s  -> %s, dynamic type %T", t_src, t_dst, x))
}

// sliceToArrayPointer converts the value x of type slice to type t_dst
// a pointer to array and returns the result.
func sliceToArrayPointer(t_dst, t_src types.Type, x value) value {
	if _, ok := t_src.Underlying().(*types.Slice); ok {
		if ptr, ok := t_dst.Underlying().(*types.Pointer); ok {
			if arr, ok := ptr.Elem().Underlying().(*types.Array); ok {
				x := x.([]value)
				if arr.Len() > int64(len(x)) {
					panic("array length is greater than slice length")
				}
				if x == nil {
					return zero(t_dst)
				}
				v := value(array(x[:arr.Len()]))
				return &v
			}
		}
	}

	panic(fmt.Sprintf("unsupported conversion: %s  -> %s, dynamic type %T", t_src, t_dst, x))
}

// checkInterface checks that the method set of x implements the
// interface itype.
// On success it returns "", on failure, an error message.
func checkInterface(i *interpreter, itype *types.Interface, x iface) string {
	if x.t == errorType {
		// an error made by a stub: it has exactly the method Error() string
		if itype.NumMethods() == 0 || (itype.NumMethods() == 1 && itype.Method(0).Name() == "Error") {
			return ""
		}
		return fmt.Sprintf("interface conversion: %v is not %v", x.t, itype)
	}
	if meth, _ := types.MissingMethod(x.t, itype, true); meth != nil {
		return fmt.Sprintf("interface conversion: %v is not %v: missing method %s",
			x.t, itype, meth.Name())
	}
	return "" // ok
}

func foldLeft(op func(value, value) value, args []value) value {
	x := args[0]
	for _, arg := range args[1:] {
		x = op(x, arg)
	}
	return x
}

func min(x, y value) value {
	switch x := x.(type) {
	case float32:
		return fmin(x, y.(float32))
	case float64:
		return fmin(x, y.(float64))
	}

	// return (y < x) ? y : x
	if binop(token.LSS, nil, y, x).(bool) {
		return y
	}
	return x
}

func max(x, y value) value {
	switch x := x.(type) {
	case float32:
		return fmax(x, y.(float32))
	case float64:
		return fmax(x, y.(float64))
	}

	// return (y > x) ? y : x
	if binop(token.GTR, nil, y, x).(bool) {
		return y
	}
	return x
}

// copied from $GOROOT/src/runtime/minmax.go

type floaty interface{ ~float32 | ~float64 }

func fmin[F floaty](x, y F) F {
	if y != y || y < x {
		return y
	}
	if x != x || x < y || x != 0 {
		return x
	}
	// x and y are both ±0
	// if either is -0, return -0; else return +0
	return forbits(x, y)
}

func fmax[F floaty](x, y F) F {
	if y != y || y > x {
		return y
	}
	if x != x || x > y || x != 0 {
		return x
	}
	// x and y are both ±0
	// if both are -0, return -0; else return +0
	return fandbits(x, y)
}

func forbits[F floaty](x, y F) F {
	switch unsafe.Sizeof(x) {
	case 4:
		*(*uint32)(unsafe.Pointer(&x)) |= *(*uint32)(unsafe.Pointer(&y))
	case 8:
		*(*uint64)(unsafe.Pointer(&x)) |= *(*uint64)(unsafe.Pointer(&y))
	}
	return x
}

func fandbits[F floaty](x, y F) F {
	switch unsafe.Sizeof(x) {
	case 4:
		*(*uint32)(unsafe.Pointer(&x)) &= *(*uint32)(unsafe.Pointer(&y))
	case 8:
		*(*uint64)(unsafe.Pointer(&x)) &= *(*uint64)(unsafe.Pointer(&y))
	}
	return x
}

func mustDeref(t types.Type) types.Type {
	if p, ok := t.Underlying().(*types.Pointer); ok {
		return p.Elem()
	}
	panic(fmt.Sprintf("mustDeref: %v is not a pointer", t))
}

// ---------------------------------------------------------------------------
// symbolic-aware wrappers

func (i *interpreter) binopSym(op token.Token, t types.Type, x, y value) value {
	switch x.(type) {
	case symVal, symString:
		return i.symBinop(op, t, x, y)
	}
	switch y.(type) {
	case symVal, symString:
		return i.symBinop(op, t, x, y)
	}
	if op == token.EQL || op == token.NEQ {
		switch x.(type) {
		case structure, array, iface:
			if containsSym(x) || containsSym(y) {
				return i.symBinop(op, t, x, y)
			}
		}
	}
	if op == token.QUO || op == token.REM {
		if _, isInt := x.(float64); !isInt {
			if _, isF := x.(float32); !isF {
				if _, isC := x.(complex128); !isC {
					if asInt64(y) == 0 {
						panic(runtimeErrorString("integer divide by zero"))
					}
				}
			}
		}
	}
	return binop(op, t, x, y)
}

func (i *interpreter) convSym(t_dst, t_src types.Type, x value) value {
	switch x := x.(type) {
	case symVal, symString:
		return i.symConv(t_dst, t_src, x)
	case []value:
		if b, ok := t_dst.Underlying().(*types.Basic); ok && b.Kind() == types.String {
			for _, e := range x {
				if _, ok := e.(symVal); ok {
					return i.symConv(t_dst, t_src, x)
				}
			}
		}
	}
	return conv(t_dst, t_src, x)
}

// concInt returns a concrete int64 for an integer value, forking over the
// feasible values of a symbolic one.
func (i *interpreter) concInt(v value) int64 {
	if sv, ok := v.(symVal); ok {
		u := i.ex.Concretize(sv.t)
		if kindSigned(sv.k) {
			return sext64(u, sv.t.W)
		}
		return int64(u)
	}
	return asInt64(v)
}

func (i *interpreter) sliceSym(x, lo, hi, max value) value {
	if lo != nil {
		lo = int(i.concInt(lo))
	}
	if hi != nil {
		hi = int(i.concInt(hi))
	}
	if max != nil {
		max = int(i.concInt(max))
	}
	if p, ok := x.(*value); ok && p == nil {
		panic(runtimeErrorString("invalid memory address or nil pointer dereference"))
	}
	return slice(x, lo, hi, max)
}

// indexSym returns a concrete in-range index, raising the Go run-time panic
// on the out-of-range side (a branch when idx is symbolic).
func (i *interpreter) indexSym(idx value, n int) int64 {
	if sv, ok := idx.(symVal); ok {
		inb := inBoundsTerm(sv, n)
		if !i.ex.Branch(inb) {
			panic(runtimeErrorString(fmt.Sprintf("index out of range [symbolic] with length %d", n)))
		}
		return i.concInt(idx)
	}
	k := asInt64(idx)
	if k < 0 || k >= int64(n) {
		panic(runtimeErrorString(fmt.Sprintf("index out of range [%d] with length %d", k, n)))
	}
	return k
}

// indexValue reads elems[idx]; a symbolic index into a small table of
// scalars becomes an ite-chain (no fork).
func (i *interpreter) indexValue(elems []value, idx value) value {
	sv, ok := idx.(symVal)
	if !ok {
		return elems[i.indexSym(idx, len(elems))]
	}
	n := len(elems)
	scalar := n > 0 && n <= 256
	var k types.BasicKind
	if scalar {
		for j, e := range elems {
			ek, ok := kindOfValue(e)
			if !ok || (j > 0 && ek != k) {
				scalar = false
				break
			}
			k = ek
		}
	}
	if !scalar {
		return elems[i.indexSym(idx, n)]
	}
	w := sv.t.W
	var inb *Term
	inb = inBoundsTerm(sv, n)
	if !i.ex.Branch(inb) {
		panic(runtimeErrorString(fmt.Sprintf("index out of range [symbolic] with length %d", n)))
	}
	r := toTerm(elems[n-1])
	for j := n - 2; j >= 0; j-- {
		r = tIte(tEq(sv.t, tConst(w, uint64(j))), toTerm(elems[j]), r)
	}
	return fromTerm(r, k)
}

func (i *interpreter) appendMon(fr *frame, dst, src []value) []value {
	if i.ex != nil && i.ex.Guard != nil && len(src) > 0 && len(dst)+len(src) <= cap(dst) {
		i.ex.Guard.onSlice(fr, dst, len(dst), "append into spare capacity")
	}
	if i.ex != nil && i.ex.StoreMon != nil && len(src) > 0 && len(dst)+len(src) <= cap(dst) {
		i.ex.StoreMon.onAppendInPlace(fr, dst)
	}
	out := append(dst, src...)
	if i.ex != nil && i.ex.StoreMon != nil && len(src) > 0 && cap(out) != cap(dst) {
		i.ex.StoreMon.onAllocSlice(out[:cap(out)])
	}
	return out
}

// inBoundsTerm: 0 <= idx < n for an index of the index's own width (n may
// exceed what that width can represent, e.g. a [256]T table indexed by a byte).
func inBoundsTerm(sv symVal, n int) *Term {
	w := sv.t.W
	if kindSigned(sv.k) {
		nonneg := tCmp(OpSle, tConst(w, 0), sv.t)
		if w < 64 && uint64(n) > mask(w-1) {
			return nonneg
		}
		return tAnd(nonneg, tCmp(OpSlt, sv.t, tConst(w, uint64(n))))
	}
	if w < 64 && uint64(n) > mask(w) {
		return tBool(true)
	}
	return tCmp(OpUlt, sv.t, tConst(w, uint64(n)))
}
