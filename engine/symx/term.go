package symx

// SMT term layer: a small hash-consed DAG of QF_BV terms with constant
// folding, SMT-LIB2 printing and concrete evaluation under a model.

import (
	"fmt"
	"sort"
	"strings"
)

type Op uint8

const (
	OpConst Op = iota
	OpVar
	OpNot
	OpAnd
	OpOr
	OpIte
	OpEq
	OpUlt
	OpUle
	OpSlt
	OpSle
	OpAdd
	OpSub
	OpMul
	OpBAnd
	OpBOr
	OpBXor
	OpShl
	OpLshr
	OpAshr
	OpUdiv
	OpUrem
	OpSdiv
	OpSrem
	OpNeg
	OpBNot
	OpExtract // a = hi, b = lo
	OpZext    // to width W
	OpSext
	OpConcat
)

var opNames = map[Op]string{
	OpNot: "not", OpAnd: "and", OpOr: "or", OpIte: "ite", OpEq: "=",
	OpUlt: "bvult", OpUle: "bvule", OpSlt: "bvslt", OpSle: "bvsle",
	OpAdd: "bvadd", OpSub: "bvsub", OpMul: "bvmul", OpBAnd: "bvand", OpBOr: "bvor", OpBXor: "bvxor",
	OpShl: "bvshl", OpLshr: "bvlshr", OpAshr: "bvashr", OpUdiv: "bvudiv", OpUrem: "bvurem",
	OpSdiv: "bvsdiv", OpSrem: "bvsrem", OpNeg: "bvneg", OpBNot: "bvnot", OpConcat: "concat",
}

// Term is an SMT term. W == 0 means sort Bool; otherwise (_ BitVec W).
type Term struct {
	Op   Op
	W    int
	Val  uint64 // OpConst (bool: 0/1)
	Name string // OpVar
	Args []*Term
	A, B int // OpExtract hi/lo
	id   int
	key  string
}

var termNext = 1

type termKey struct {
	op      Op
	w       int
	val     uint64
	name    string
	a, b    int
	n       int
	x, y, z int
}

var termTab2 = map[termKey]*Term{}

func intern(t *Term) *Term {
	k := termKey{op: t.Op, w: t.W, val: t.Val, name: t.Name, a: t.A, b: t.B, n: len(t.Args)}
	switch len(t.Args) {
	case 3:
		k.z = t.Args[2].id
		fallthrough
	case 2:
		k.y = t.Args[1].id
		fallthrough
	case 1:
		k.x = t.Args[0].id
	case 0:
	default:
		panic(engineError("intern: arity"))
	}
	if o, ok := termTab2[k]; ok {
		return o
	}
	t.id = termNext
	termNext++
	termTab2[k] = t
	return t
}

// resetTerms drops the intern table (between configurations) to bound memory.
func resetTerms() {
	termTab2 = map[termKey]*Term{}
}

func mask(w int) uint64 {
	if w >= 64 {
		return ^uint64(0)
	}
	return (uint64(1) << uint(w)) - 1
}

func sext64(v uint64, w int) int64 {
	if w >= 64 {
		return int64(v)
	}
	sh := uint(64 - w)
	return int64(v<<sh) >> sh
}

func tConst(w int, v uint64) *Term { return intern(&Term{Op: OpConst, W: w, Val: v & mask(w)}) }
func tBool(b bool) *Term {
	if b {
		return intern(&Term{Op: OpConst, W: 0, Val: 1})
	}
	return intern(&Term{Op: OpConst, W: 0, Val: 0})
}
func tVar(name string, w int) *Term { return intern(&Term{Op: OpVar, W: w, Name: name}) }

func (t *Term) IsConst() bool { return t.Op == OpConst }
func (t *Term) IsTrue() bool  { return t.Op == OpConst && t.W == 0 && t.Val == 1 }
func (t *Term) IsFalse() bool { return t.Op == OpConst && t.W == 0 && t.Val == 0 }

func tNot(a *Term) *Term {
	if a.IsConst() {
		return tBool(a.Val == 0)
	}
	if a.Op == OpNot {
		return a.Args[0]
	}
	return intern(&Term{Op: OpNot, Args: []*Term{a}})
}

func tAnd(a, b *Term) *Term {
	if a.IsConst() {
		if a.Val == 0 {
			return a
		}
		return b
	}
	if b.IsConst() {
		if b.Val == 0 {
			return b
		}
		return a
	}
	if a == b {
		return a
	}
	return intern(&Term{Op: OpAnd, Args: []*Term{a, b}})
}

func tOr(a, b *Term) *Term {
	if a.IsConst() {
		if a.Val == 1 {
			return a
		}
		return b
	}
	if b.IsConst() {
		if b.Val == 1 {
			return b
		}
		return a
	}
	if a == b {
		return a
	}
	return intern(&Term{Op: OpOr, Args: []*Term{a, b}})
}

func tAndN(ts ...*Term) *Term {
	r := tBool(true)
	for _, t := range ts {
		r = tAnd(r, t)
	}
	return r
}

func tOrN(ts ...*Term) *Term {
	r := tBool(false)
	for _, t := range ts {
		r = tOr(r, t)
	}
	return r
}

func tImplies(a, b *Term) *Term { return tOr(tNot(a), b) }

func tIte(c, a, b *Term) *Term {
	if c.IsConst() {
		if c.Val == 1 {
			return a
		}
		return b
	}
	if a == b {
		return a
	}
	if a.W == 0 {
		// boolean ite
		if a.IsConst() && b.IsConst() {
			if a.Val == 1 {
				return c
			}
			return tNot(c)
		}
	}
	return intern(&Term{Op: OpIte, W: a.W, Args: []*Term{c, a, b}})
}

func tEq(a, b *Term) *Term {
	if a.W != b.W {
		panic(engineError(fmt.Sprintf("tEq width mismatch %d vs %d", a.W, b.W)))
	}
	if a == b {
		return tBool(true)
	}
	if a.IsConst() && b.IsConst() {
		return tBool(a.Val == b.Val)
	}
	if a.W == 0 {
		if a.IsConst() {
			if a.Val == 1 {
				return b
			}
			return tNot(b)
		}
		if b.IsConst() {
			if b.Val == 1 {
				return a
			}
			return tNot(a)
		}
	}
	if a.IsConst() { // constants to the right
		a, b = b, a
	}
	// (zext x) == c with c out of range
	if b.IsConst() && (a.Op == OpZext) {
		in := a.Args[0]
		if b.Val > mask(in.W) {
			return tBool(false)
		}
		return tEq(in, tConst(in.W, b.Val))
	}
	// ite(c, k1, k2) == k  with constants
	if b.IsConst() && a.Op == OpIte && a.Args[1].IsConst() && a.Args[2].IsConst() {
		return tIte(a.Args[0], tBool(a.Args[1].Val == b.Val), tBool(a.Args[2].Val == b.Val))
	}
	if a.id > b.id && !b.IsConst() {
		a, b = b, a
	}
	return intern(&Term{Op: OpEq, Args: []*Term{a, b}})
}

func tCmp(op Op, a, b *Term) *Term {
	if a.W != b.W {
		panic(engineError(fmt.Sprintf("tCmp width mismatch %d vs %d", a.W, b.W)))
	}
	if a.IsConst() && b.IsConst() {
		switch op {
		case OpUlt:
			return tBool(a.Val < b.Val)
		case OpUle:
			return tBool(a.Val <= b.Val)
		case OpSlt:
			return tBool(sext64(a.Val, a.W) < sext64(b.Val, b.W))
		case OpSle:
			return tBool(sext64(a.Val, a.W) <= sext64(b.Val, b.W))
		}
	}
	if a == b {
		return tBool(op == OpUle || op == OpSle)
	}
	// Narrow comparisons of zero-extended values against constants: keeps
	// queries in 8-bit space.
	if a.Op == OpZext && b.IsConst() {
		in := a.Args[0]
		neg := (op == OpSlt || op == OpSle) && sext64(b.Val, b.W) < 0
		if neg {
			return tBool(false) // zext >= 0 > b
		}
		if b.Val > mask(in.W) {
			return tBool(true)
		}
		uop := op
		if op == OpSlt {
			uop = OpUlt
		} else if op == OpSle {
			uop = OpUle
		}
		return tCmp(uop, in, tConst(in.W, b.Val))
	}
	if b.Op == OpZext && a.IsConst() {
		in := b.Args[0]
		neg := (op == OpSlt || op == OpSle) && sext64(a.Val, a.W) < 0
		if neg {
			return tBool(true)
		}
		if a.Val > mask(in.W) {
			return tBool(false)
		}
		uop := op
		if op == OpSlt {
			uop = OpUlt
		} else if op == OpSle {
			uop = OpUle
		}
		return tCmp(uop, tConst(in.W, a.Val), in)
	}
	return intern(&Term{Op: op, Args: []*Term{a, b}})
}

func evalBin(op Op, w int, x, y uint64) (uint64, bool) {
	m := mask(w)
	switch op {
	case OpAdd:
		return (x + y) & m, true
	case OpSub:
		return (x - y) & m, true
	case OpMul:
		return (x * y) & m, true
	case OpBAnd:
		return x & y, true
	case OpBOr:
		return x | y, true
	case OpBXor:
		return x ^ y, true
	case OpShl:
		if y >= uint64(w) {
			return 0, true
		}
		return (x << y) & m, true
	case OpLshr:
		if y >= uint64(w) {
			return 0, true
		}
		return x >> y, true
	case OpAshr:
		s := sext64(x, w)
		if y >= uint64(w) {
			if s < 0 {
				return m, true
			}
			return 0, true
		}
		return uint64(s>>y) & m, true
	case OpUdiv:
		if y == 0 {
			return m, true
		}
		return x / y, true
	case OpUrem:
		if y == 0 {
			return x, true
		}
		return x % y, true
	case OpSdiv:
		sx, sy := sext64(x, w), sext64(y, w)
		if sy == 0 {
			if sx < 0 {
				return 1, true
			}
			return m, true
		}
		if sy == -1 {
			return uint64(-sx) & m, true
		}
		return uint64(sx/sy) & m, true
	case OpSrem:
		sx, sy := sext64(x, w), sext64(y, w)
		if sy == 0 {
			return x, true
		}
		if sy == -1 {
			return 0, true
		}
		return uint64(sx%sy) & m, true
	}
	return 0, false
}

func tBin(op Op, a, b *Term) *Term {
	if a.W != b.W {
		panic(engineError(fmt.Sprintf("tBin %v width mismatch %d vs %d", opNames[op], a.W, b.W)))
	}
	if a.IsConst() && b.IsConst() {
		v, _ := evalBin(op, a.W, a.Val, b.Val)
		return tConst(a.W, v)
	}
	switch op {
	case OpAdd, OpBOr, OpBXor:
		if a.IsConst() && a.Val == 0 {
			return b
		}
		if b.IsConst() && b.Val == 0 {
			return a
		}
	case OpSub, OpShl, OpLshr, OpAshr:
		if b.IsConst() && b.Val == 0 {
			return a
		}
	case OpMul:
		if a.IsConst() && a.Val == 1 {
			return b
		}
		if b.IsConst() && b.Val == 1 {
			return a
		}
		if (a.IsConst() && a.Val == 0) || (b.IsConst() && b.Val == 0) {
			return tConst(a.W, 0)
		}
	case OpBAnd:
		if (a.IsConst() && a.Val == 0) || (b.IsConst() && b.Val == 0) {
			return tConst(a.W, 0)
		}
		if a.IsConst() && a.Val == mask(a.W) {
			return b
		}
		if b.IsConst() && b.Val == mask(a.W) {
			return a
		}
	}
	return intern(&Term{Op: op, W: a.W, Args: []*Term{a, b}})
}

func tNeg(a *Term) *Term {
	if a.IsConst() {
		return tConst(a.W, -a.Val)
	}
	return intern(&Term{Op: OpNeg, W: a.W, Args: []*Term{a}})
}

func tBNot(a *Term) *Term {
	if a.IsConst() {
		return tConst(a.W, ^a.Val)
	}
	return intern(&Term{Op: OpBNot, W: a.W, Args: []*Term{a}})
}

func tExtract(a *Term, hi, lo int) *Term {
	w := hi - lo + 1
	if lo == 0 && w == a.W {
		return a
	}
	if a.IsConst() {
		return tConst(w, a.Val>>uint(lo))
	}
	if (a.Op == OpZext || a.Op == OpSext) && lo == 0 {
		in := a.Args[0]
		if w == in.W {
			return in
		}
		if w < in.W {
			return tExtract(in, hi, 0)
		}
		if a.Op == OpZext {
			return tZext(in, w)
		}
		return tSext(in, w)
	}
	return intern(&Term{Op: OpExtract, W: w, A: hi, B: lo, Args: []*Term{a}})
}

func tZext(a *Term, w int) *Term {
	if w == a.W {
		return a
	}
	if w < a.W {
		return tExtract(a, w-1, 0)
	}
	if a.IsConst() {
		return tConst(w, a.Val)
	}
	if a.Op == OpZext {
		return tZext(a.Args[0], w)
	}
	return intern(&Term{Op: OpZext, W: w, Args: []*Term{a}})
}

func tSext(a *Term, w int) *Term {
	if w == a.W {
		return a
	}
	if w < a.W {
		return tExtract(a, w-1, 0)
	}
	if a.IsConst() {
		return tConst(w, uint64(sext64(a.Val, a.W)))
	}
	if a.Op == OpZext { // sign bit is 0
		return tZext(a.Args[0], w)
	}
	return intern(&Term{Op: OpSext, W: w, Args: []*Term{a}})
}

// ---------------------------------------------------------------------------
// Printing

func sortOf(w int) string {
	if w == 0 {
		return "Bool"
	}
	return fmt.Sprintf("(_ BitVec %d)", w)
}

func constText(t *Term) string {
	if t.W == 0 {
		if t.Val == 1 {
			return "true"
		}
		return "false"
	}
	if t.W%4 == 0 {
		return fmt.Sprintf("#x%0*x", t.W/4, t.Val)
	}
	return fmt.Sprintf("(_ bv%d %d)", t.Val, t.W)
}

// smtPrinter emits define-funs for shared subterms so that output stays
// linear in DAG size. One printer lives as long as one solver context.
type smtPrinter struct {
	defined  map[int]bool // term id -> has a define-fun named t<id>
	declared map[string]bool
	out      *strings.Builder
	// undo log for push/pop levels
	logIDs   []int
	logNames []string
	marks    [][2]int
}

func (p *smtPrinter) pushLevel() { p.marks = append(p.marks, [2]int{len(p.logIDs), len(p.logNames)}) }

func (p *smtPrinter) popLevel() {
	m := p.marks[len(p.marks)-1]
	p.marks = p.marks[:len(p.marks)-1]
	for _, id := range p.logIDs[m[0]:] {
		delete(p.defined, id)
	}
	for _, n := range p.logNames[m[1]:] {
		delete(p.declared, n)
	}
	p.logIDs = p.logIDs[:m[0]]
	p.logNames = p.logNames[:m[1]]
}

func newPrinter() *smtPrinter {
	return &smtPrinter{defined: map[int]bool{}, declared: map[string]bool{}, out: &strings.Builder{}}
}

// ref returns the SMT text referring to t, emitting declarations and
// definitions into p.out as needed.
func (p *smtPrinter) ref(t *Term) string {
	switch t.Op {
	case OpConst:
		return constText(t)
	case OpVar:
		if !p.declared[t.Name] {
			p.declared[t.Name] = true
			p.logNames = append(p.logNames, t.Name)
			fmt.Fprintf(p.out, "(declare-const %s %s)\n", t.Name, sortOf(t.W))
		}
		return t.Name
	}
	if p.defined[t.id] {
		return fmt.Sprintf("t%d", t.id)
	}
	args := make([]string, len(t.Args))
	for i, a := range t.Args {
		args[i] = p.ref(a)
	}
	var body string
	switch t.Op {
	case OpExtract:
		body = fmt.Sprintf("((_ extract %d %d) %s)", t.A, t.B, args[0])
	case OpZext:
		body = fmt.Sprintf("((_ zero_extend %d) %s)", t.W-t.Args[0].W, args[0])
	case OpSext:
		body = fmt.Sprintf("((_ sign_extend %d) %s)", t.W-t.Args[0].W, args[0])
	default:
		body = "(" + opNames[t.Op] + " " + strings.Join(args, " ") + ")"
	}
	p.defined[t.id] = true
	p.logIDs = append(p.logIDs, t.id)
	fmt.Fprintf(p.out, "(define-fun t%d () %s %s)\n", t.id, sortOf(t.W), body)
	return fmt.Sprintf("t%d", t.id)
}

func (p *smtPrinter) take() string {
	s := p.out.String()
	p.out.Reset()
	return s
}

// ---------------------------------------------------------------------------
// Evaluation

type Model map[string]uint64

func (t *Term) Eval(m Model, memo map[int]uint64) uint64 {
	if t.Op == OpConst {
		return t.Val
	}
	if v, ok := memo[t.id]; ok {
		return v
	}
	var r uint64
	switch t.Op {
	case OpVar:
		r = m[t.Name] & mask(maxInt(t.W, 1))
	case OpNot:
		r = 1 - t.Args[0].Eval(m, memo)
	case OpAnd:
		r = t.Args[0].Eval(m, memo) & t.Args[1].Eval(m, memo)
	case OpOr:
		r = t.Args[0].Eval(m, memo) | t.Args[1].Eval(m, memo)
	case OpIte:
		if t.Args[0].Eval(m, memo) == 1 {
			r = t.Args[1].Eval(m, memo)
		} else {
			r = t.Args[2].Eval(m, memo)
		}
	case OpEq:
		if t.Args[0].Eval(m, memo) == t.Args[1].Eval(m, memo) {
			r = 1
		}
	case OpUlt, OpUle, OpSlt, OpSle:
		a, b := t.Args[0].Eval(m, memo), t.Args[1].Eval(m, memo)
		w := t.Args[0].W
		var ok bool
		switch t.Op {
		case OpUlt:
			ok = a < b
		case OpUle:
			ok = a <= b
		case OpSlt:
			ok = sext64(a, w) < sext64(b, w)
		case OpSle:
			ok = sext64(a, w) <= sext64(b, w)
		}
		if ok {
			r = 1
		}
	case OpNeg:
		r = (-t.Args[0].Eval(m, memo)) & mask(t.W)
	case OpBNot:
		r = (^t.Args[0].Eval(m, memo)) & mask(t.W)
	case OpExtract:
		r = (t.Args[0].Eval(m, memo) >> uint(t.B)) & mask(t.W)
	case OpZext:
		r = t.Args[0].Eval(m, memo)
	case OpSext:
		r = uint64(sext64(t.Args[0].Eval(m, memo), t.Args[0].W)) & mask(t.W)
	case OpConcat:
		r = (t.Args[0].Eval(m, memo)<<uint(t.Args[1].W) | t.Args[1].Eval(m, memo)) & mask(t.W)
	default:
		v, ok := evalBin(t.Op, t.W, t.Args[0].Eval(m, memo), t.Args[1].Eval(m, memo))
		if !ok {
			panic(engineError(fmt.Sprintf("Eval: op %d", t.Op)))
		}
		r = v
	}
	memo[t.id] = r
	return r
}

func maxInt(a, b int) int {
	if a > b {
		return a
	}
	return b
}

// Vars collects the variables of t.
func (t *Term) Vars(seen map[int]bool, out map[string]int) {
	if seen[t.id] {
		return
	}
	seen[t.id] = true
	if t.Op == OpVar {
		out[t.Name] = t.W
	}
	for _, a := range t.Args {
		a.Vars(seen, out)
	}
}

func (t *Term) String() string {
	switch t.Op {
	case OpConst:
		return constText(t)
	case OpVar:
		return t.Name
	case OpExtract:
		return fmt.Sprintf("((_ extract %d %d) %s)", t.A, t.B, t.Args[0])
	case OpZext:
		return fmt.Sprintf("(zext%d %s)", t.W, t.Args[0])
	case OpSext:
		return fmt.Sprintf("(sext%d %s)", t.W, t.Args[0])
	}
	parts := []string{opNames[t.Op]}
	for _, a := range t.Args {
		parts = append(parts, a.String())
	}
	return "(" + strings.Join(parts, " ") + ")"
}

func sortedKeys(m map[string]int) []string {
	ks := make([]string, 0, len(m))
	for k := range m {
		ks = append(ks, k)
	}
	sort.Strings(ks)
	return ks
}
