package symx

// Path exploration by replay: a path is its decision vector; the harness
// body is re-executed from its start for every vector.

import (
	"fmt"
	"os"
	"sort"
	"strings"
	"time"
)

// engineError aborts the whole run: the engine met something it does not
// model. Never reported as a verdict about the target.
type engineError string

func (e engineError) Error() string { return "symx engine error: " + string(e) }

// pathEnd terminates the current path without a verdict about the target.
type pathEnd struct {
	reason string // "assume", "budget", "depth"
}

func isEnginePanic(p interface{}) bool {
	switch p.(type) {
	case engineError, pathEnd:
		return true
	}
	return false
}

type Decision struct {
	Kind   byte   `json:"k"` // 'b' branch, 'c' concretize, 'n' n-ary concrete choice
	Taken  bool   `json:"t"`
	Val    uint64 `json:"v"`
	Forced bool   `json:"f,omitempty"`
}

type NondetRec struct {
	Name  string `json:"name"`
	W     int    `json:"w"`
	Label string `json:"label,omitempty"`
}

type Violation struct {
	Msg    string   `json:"msg"`
	Pos    string   `json:"pos,omitempty"`
	Replay []uint64 `json:"replay"`
	Obs    []string `json:"obs,omitempty"`
	Kind   string   `json:"kind"` // "assert", "panic"
}

type PathResult struct {
	Status   string      `json:"status"` // ok, pruned, budget, violation
	Reason   string      `json:"reason,omitempty"`
	Replay   []uint64    `json:"replay"`
	Obs      []string    `json:"obs"`
	Panic    string      `json:"panic,omitempty"`
	Decs     int         `json:"decisions"`
	Steps    int         `json:"steps"`
	Viol     []Violation `json:"violations,omitempty"`
	Reached  []string    `json:"reached,omitempty"`
	Asserts  int         `json:"asserts"`
	PCText   string      `json:"pc,omitempty"`
	SymClass string      `json:"-"`
}

type obsRec struct {
	tag  string
	vals []value
}

type Explorer struct {
	S            *Solver
	prefix       []Decision
	trace        []Decision
	pc           []*Term
	flushed      int
	work         [][]Decision
	nondet       []NondetRec
	nondetSeq    int
	obs          []obsRec
	viol         []Violation
	reached      map[string]bool
	steps        int
	depth        int
	MaxSteps     int
	MaxDepth     int
	MaxPaths     int
	asserts      int // assertion obligations discharged on this path
	Params       map[string]string
	interp       *interpreter
	pcInfeasible bool

	// totals across paths
	TotalPaths     int
	TotalDecisions int
	TotalForced    int
	TotalAsserts   int
	TotalPanicsObl int
	Unknowns       int
	BudgetPaths    int
	FnsTouched     map[string]int
	pcDec          []int   // number of decisions taken when pc[i] was added
	prevPC         []*Term // path condition of the previous path (for prefix sharing in the solver)
	prevPCDec      []int
	shared         int // leading pc terms already asserted in the solver from the previous path
	dom            map[string]bitset
	entangled      map[string]bool
	ByteDecided    int
	Shard, Shards  int
	ShardDepth     int
	TrivialAsserts int
	noShare        bool
	PoolReuse      bool
	MonTotals      map[string]int
	UninitGlobals  map[string]int
	stubLog        []value
	RootPrefix     []Decision
	Shed           func([][]Decision)
	ShedEvery      time.Duration
	logical        int
	shardHash      uint32
	shardDone      bool
	NeedModel      func(symClass string) bool
	WantPC         bool
	MapOrders      bool
	StoreMon       *storeMonitor
	Guard          *setupGuard // set while bodies run on a heap that set-up built once
}

func NewExplorer(s *Solver) *Explorer {
	return &Explorer{S: s, noShare: os.Getenv("SYMX_NOSHARE") != "", MaxSteps: 3000000, MaxDepth: 400, MaxPaths: 200000,
		FnsTouched: map[string]int{}, Params: map[string]string{}, UninitGlobals: map[string]int{}, MonTotals: map[string]int{}}
}

func (e *Explorer) beginPath(prefix []Decision) {
	// pc terms added before the decision where this path diverges from the
	// previous one are identical (deterministic replay): keep them asserted.
	e.prevPC = append(e.prevPC[:0], e.pc...)
	e.prevPCDec = append(e.prevPCDec[:0], e.pcDec...)
	div := len(prefix) - 1
	shared := 0
	if e.S != nil && div >= 0 && !e.noShare {
		for shared < len(e.prevPC) && shared < e.flushed && e.prevPCDec[shared] <= div {
			shared++
		}
	}
	e.shared = shared
	e.prefix = prefix
	e.trace = e.trace[:0]
	e.pc = e.pc[:0]
	e.pcDec = e.pcDec[:0]
	e.flushed = 0
	e.nondet = e.nondet[:0]
	e.nondetSeq = 0
	e.obs = nil
	e.viol = nil
	e.reached = map[string]bool{}
	e.steps = 0
	e.depth = 0
	e.asserts = 0
	e.pcInfeasible = false
	e.logical, e.shardHash, e.shardDone = 0, 2166136261, false
	e.stubLog = nil
	e.StoreMon = nil // a monitor switched on by the previous path's body does not watch this path's set-up
	e.PoolReuse = false
	e.MapOrders = false
	e.dom = map[string]bitset{}
	e.entangled = map[string]bool{}
	if e.S != nil {
		if e.shared > 0 {
			e.S.PopTo(e.shared)
		} else {
			e.S.Reset()
		}
	}
}

func (e *Explorer) flush() {
	for ; e.flushed < len(e.pc); e.flushed++ {
		if e.flushed < e.shared {
			if e.pc[e.flushed] != e.prevPC[e.flushed] {
				panic(engineError("replay divergence: shared path-condition prefix differs"))
			}
			continue
		}
		e.S.AssertLevel(e.pc[e.flushed])
	}
}

func (e *Explorer) addPC(t *Term) {
	if t.IsTrue() {
		return
	}
	e.pc = append(e.pc, t)
	e.pcDec = append(e.pcDec, len(e.trace))
	e.noteConstraint(t)
}

// feasible decides pc && (c == pol), by domains when possible.
func (e *Explorer) feasible(c *Term, pol bool) SatResult {
	switch e.satDom(c, pol) {
	case triTrue:
		e.ByteDecided++
		return Sat
	case triFalse:
		e.ByteDecided++
		return Unsat
	}
	if pol {
		return e.check(c)
	}
	return e.check(tNot(c))
}

func (e *Explorer) check(extra ...*Term) SatResult {
	e.flush()
	r, _ := e.S.Check(extra, nil)
	if r == Unknown {
		// a timeout on a loaded machine: ask once more before giving up
		r, _ = e.S.Check(extra, nil)
	}
	if r == Unknown {
		e.Unknowns++
	}
	return r
}

// shardCheck prunes paths that belong to another shard once the path has
// taken ShardDepth logical decisions. The key ignores "value rejected"
// entries of Concretize, whose order depends on the solver's model choice.
func (e *Explorer) shardCheck() {
	if e.Shards <= 1 || e.shardDone {
		return
	}
	last := e.trace[len(e.trace)-1]
	if last.Kind == 'c' && !last.Taken {
		return
	}
	e.logical++
	x := uint32(last.Val)*2 + 1
	if last.Taken {
		x++
	}
	e.shardHash ^= x
	e.shardHash *= 16777619
	if e.logical < e.ShardDepth {
		return
	}
	e.shardDone = true
	h := e.shardHash
	h ^= h >> 16
	h *= 0x85ebca6b
	h ^= h >> 13
	h *= 0xc2b2ae35
	h ^= h >> 16
	if int(h%uint32(e.Shards)) != e.Shard {
		panic(pathEnd{"shard"})
	}
}

func (e *Explorer) pushAlt(d Decision) {
	alt := make([]Decision, len(e.trace)+1)
	copy(alt, e.trace)
	alt[len(e.trace)] = d
	e.work = append(e.work, alt)
}

// Branch decides a symbolic condition and returns the side taken.
func (e *Explorer) Branch(c *Term) bool {
	if c.IsConst() {
		return c.Val == 1
	}
	i := len(e.trace)
	if i < len(e.prefix) {
		d := e.prefix[i]
		if d.Kind != 'b' {
			panic(engineError(fmt.Sprintf("replay divergence at decision %d: expected kind %c, got branch", i, d.Kind)))
		}
		e.trace = append(e.trace, d)
		if !d.Forced {
			if d.Taken {
				e.addPC(c)
			} else {
				e.addPC(tNot(c))
			}
		}
		e.shardCheck()
		return d.Taken
	}
	rt := e.feasible(c, true)
	var rf SatResult
	if rt == Unsat {
		rf = Sat // pc is satisfiable by construction
	} else {
		rf = e.feasible(c, false)
	}
	switch {
	case rt != Unsat && rf != Unsat:
		e.pushAlt(Decision{Kind: 'b', Taken: false})
		e.trace = append(e.trace, Decision{Kind: 'b', Taken: true})
		e.addPC(c)
		e.shardCheck()
		return true
	case rt != Unsat:
		e.trace = append(e.trace, Decision{Kind: 'b', Taken: true, Forced: true})
		e.TotalForced++
		e.shardCheck()
		return true
	default:
		e.trace = append(e.trace, Decision{Kind: 'b', Taken: false, Forced: true})
		e.TotalForced++
		e.shardCheck()
		return false
	}
}

// Concretize picks a feasible value of t and forks on "t == v".
func (e *Explorer) Concretize(t *Term) uint64 {
	for {
		if t.IsConst() {
			return t.Val
		}
		i := len(e.trace)
		if i < len(e.prefix) {
			d := e.prefix[i]
			if d.Kind != 'c' {
				panic(engineError(fmt.Sprintf("replay divergence at decision %d: expected kind %c, got concretize", i, d.Kind)))
			}
			e.trace = append(e.trace, d)
			e.shardCheck()
			eq := tEq(t, tConst(t.W, d.Val))
			if d.Taken {
				if !d.Forced {
					e.addPC(eq)
				} else {
					e.addPC(eq) // forced: still record the equality; it is implied but cheap and makes later folding possible
				}
				return d.Val
			}
			e.addPC(tNot(eq))
			continue
		}
		e.flush()
		probe := "cz!probe"
		w := t.W
		if w == 0 {
			w = 1
		}
		_ = probe
		// Ask for a model of t by naming it.
		pv := tVar(fmt.Sprintf("cz!%d", t.id), t.W)
		r, m := e.S.Check([]*Term{tEq(pv, t)}, map[string]int{pv.Name: t.W})
		if r == Unknown {
			e.Unknowns++
			panic(pathEnd{"solver-unknown-in-concretize"})
		}
		if r == Unsat {
			// pc infeasible: should not happen
			panic(engineError("concretize: path condition unsatisfiable"))
		}
		v := m[pv.Name]
		eq := tEq(t, tConst(t.W, v))
		// is another value possible?
		other := e.check(tNot(eq))
		if other != Unsat {
			e.pushAlt(Decision{Kind: 'c', Taken: false, Val: v})
			e.trace = append(e.trace, Decision{Kind: 'c', Taken: true, Val: v})
		} else {
			e.trace = append(e.trace, Decision{Kind: 'c', Taken: true, Val: v, Forced: true})
			e.TotalForced++
		}
		e.addPC(eq)
		e.shardCheck()
		return v
	}
}

// Choice is an n-ary concrete nondeterministic choice (no solver).
func (e *Explorer) Choice(n int) int {
	if n <= 1 {
		return 0
	}
	i := len(e.trace)
	if i < len(e.prefix) {
		d := e.prefix[i]
		if d.Kind != 'n' {
			panic(engineError(fmt.Sprintf("replay divergence at decision %d: expected kind %c, got choice", i, d.Kind)))
		}
		e.trace = append(e.trace, d)
		e.shardCheck()
		return int(d.Val)
	}
	for k := n - 1; k >= 1; k-- {
		e.pushAlt(Decision{Kind: 'n', Val: uint64(k)})
	}
	e.trace = append(e.trace, Decision{Kind: 'n', Val: 0})
	e.shardCheck()
	return 0
}

func (e *Explorer) Assume(c *Term) {
	if c.IsTrue() {
		return
	}
	if c.IsFalse() {
		panic(pathEnd{"assume"})
	}
	// In replay the assumption's feasibility was established already only
	// if we are inside the prefix; checking again is cheap and simple.
	if len(e.trace) >= len(e.prefix) {
		if e.check(c) == Unsat {
			panic(pathEnd{"assume"})
		}
	}
	e.addPC(c)
}

func (e *Explorer) freshVar(w int, label string) *Term {
	name := fmt.Sprintf("n%d", e.nondetSeq)
	e.nondetSeq++
	e.nondet = append(e.nondet, NondetRec{Name: name, W: w, Label: label})
	return tVar(name, w)
}

// model returns a model of the current path condition (plus extra) over
// the nondet variables, validated by concrete evaluation.
func (e *Explorer) model(extra ...*Term) (Model, SatResult) {
	e.flush()
	want := map[string]int{}
	for _, n := range e.nondet {
		want[n.Name] = n.W
	}
	if len(want) == 0 {
		want["n!dummy"] = 8
	}
	r, m := e.S.Check(extra, want)
	if r == Unknown {
		r, m = e.S.Check(extra, want)
	}
	if r != Sat {
		if r == Unknown {
			e.Unknowns++
		}
		return nil, r
	}
	memo := map[int]uint64{}
	for _, c := range e.pc {
		if c.Eval(m, memo) != 1 {
			panic(engineError("model does not satisfy path condition term " + c.String()))
		}
	}
	for _, c := range extra {
		if c.Eval(m, memo) != 1 {
			panic(engineError("model does not satisfy query term " + c.String()))
		}
	}
	return m, Sat
}

func (e *Explorer) replayVector(m Model) []uint64 {
	out := make([]uint64, len(e.nondet))
	for i, n := range e.nondet {
		out[i] = m[n.Name]
	}
	return out
}

// Assert checks that c holds on every input reaching this point.
func (e *Explorer) Assert(c *Term, msg, pos string) {
	if c.IsTrue() {
		e.TrivialAsserts++
		return
	}
	e.asserts++
	e.TotalAsserts++
	m, r := e.model(tNot(c))
	if r == Unsat {
		return
	}
	if r == Unknown {
		e.viol = append(e.viol, Violation{Msg: msg + " [solver unknown]", Pos: pos, Kind: "unknown"})
		return
	}
	e.viol = append(e.viol, Violation{Msg: msg, Pos: pos, Kind: "assert", Replay: e.replayVector(m), Obs: e.renderObs(m)})
	// continue under the assumption that it held, if that is feasible
	if c.IsFalse() || e.check(c) == Unsat {
		panic(pathEnd{"assert-failed-on-all-inputs"})
	}
	e.addPC(c)
}

// symClass abstracts the observation log without a model: tags and the
// concrete leading values; symbolic values print as their shape only.
func (e *Explorer) symClass() string {
	var sb strings.Builder
	for _, o := range e.obs {
		sb.WriteString(o.tag)
		for _, v := range o.vals {
			switch v := v.(type) {
			case symVal:
				sb.WriteString(" ?")
			case symString:
				sb.WriteString(fmt.Sprintf(" s%d", len(v)))
			case string:
				sb.WriteString(fmt.Sprintf(" s%d", len(v)))
			case *omap:
				if v != nil {
					for _, en := range v.entries {
						if ks, ok := en.k.(string); ok {
							sb.WriteString(" " + ks)
						}
					}
				}
			case []value:
				sb.WriteString(fmt.Sprintf(" l%d", len(v)))
			default:
				sb.WriteString(" " + renderValue(v, Model{}, map[int]uint64{}))
			}
		}
		sb.WriteString(";")
	}
	return sb.String()
}

func (e *Explorer) renderObs(m Model) []string {
	memo := map[int]uint64{}
	var out []string
	for _, o := range e.obs {
		var sb strings.Builder
		sb.WriteString(o.tag)
		for _, v := range o.vals {
			sb.WriteString(" ")
			sb.WriteString(renderValue(v, m, memo))
		}
		out = append(out, sb.String())
	}
	return out
}

// step accounts one instruction; exceeding the budget ends the path as
// inconclusive (an unwinding failure in CBMC terms).
func (e *Explorer) step() {
	e.steps++
	if e.steps > e.MaxSteps {
		panic(pathEnd{"budget"})
	}
}

// RunAll explores all paths of body. body runs one path.
func (e *Explorer) RunAll(body func(), onPath func(PathResult)) {
	e.work = [][]Decision{e.RootPrefix}
	lastShed := time.Now().Add(-e.ShedEvery + 300*time.Millisecond)
	for len(e.work) > 0 {
		if e.Shed != nil && len(e.work) >= 2 && time.Since(lastShed) > e.ShedEvery {
			// donate the oldest (shallowest) half of the worklist
			n := len(e.work) / 2
			give := make([][]Decision, n)
			copy(give, e.work[:n])
			e.work = append(e.work[:0:0], e.work[n:]...)
			e.Shed(give)
			lastShed = time.Now()
		}
		if e.TotalPaths >= e.MaxPaths {
			onPath(PathResult{Status: "budget", Reason: fmt.Sprintf("max paths %d reached with %d pending", e.MaxPaths, len(e.work))})
			e.BudgetPaths++
			return
		}
		prefix := e.work[len(e.work)-1]
		e.work = e.work[:len(e.work)-1]
		e.beginPath(prefix)
		res := e.runOne(body)
		e.TotalPaths++
		e.TotalDecisions += len(e.trace)
		onPath(res)
	}
}

func (e *Explorer) runOne(body func()) (res PathResult) {
	var endReason string
	var uncaught string
	if e.interp != nil {
		e.interp.panicStack = nil
	}
	func() {
		defer func() {
			if p := recover(); p != nil {
				switch p := p.(type) {
				case pathEnd:
					endReason = p.reason
				case engineError:
					panic(p)
				case targetPanic:
					uncaught = "panic: " + toStringSym(p.v)
				default:
					// runtime.Error or string raised by the interpreter on behalf of the target
					uncaught = fmt.Sprintf("panic: %v", p)
					if e.interp != nil && os.Getenv("SYMX_PANIC_STACK") != "" {
						uncaught += e.interp.takePanicStack()
					}
					if os.Getenv("SYMX_DEBUG_PANIC") != "" {
						panic(p)
					}
				}
			}
		}()
		body()
	}()
	res.Decs = len(e.trace)
	res.Steps = e.steps
	res.Asserts = e.asserts
	for k := range e.reached {
		res.Reached = append(res.Reached, k)
	}
	sort.Strings(res.Reached)
	switch endReason {
	case "":
	case "shard":
		res.Status = "othershard"
		return
	case "assume", "assert-failed-on-all-inputs":
		res.Status = "pruned"
		res.Reason = endReason
		res.Viol = e.viol
		if len(e.viol) > 0 {
			res.Status = "violation"
		}
		return
	default:
		res.Status = "budget"
		res.Reason = endReason
		e.BudgetPaths++
		res.Viol = e.viol
		return
	}
	if e.Shards > 1 && !e.shardDone && e.Shard != 0 {
		res.Status = "othershard"
		return
	}
	res.Panic = uncaught
	res.SymClass = e.symClass() + "|" + uncaught
	if uncaught == "" && e.NeedModel != nil && !e.NeedModel(res.SymClass) {
		res.Viol = e.viol
		if len(res.Viol) > 0 {
			res.Status = "violation"
		} else {
			res.Status = "ok"
		}
		return
	}
	m, r := e.model()
	if r != Sat {
		res.Status = "budget"
		res.Reason = "no model for completed path: " + r.String()
		e.BudgetPaths++
		return
	}
	res.Replay = e.replayVector(m)
	res.Obs = e.renderObs(m)
	res.Viol = e.viol
	if e.WantPC {
		var sb strings.Builder
		for _, c := range e.pc {
			sb.WriteString(c.String())
			sb.WriteString(" ")
		}
		res.PCText = sb.String()
	}
	if uncaught != "" {
		res.Viol = append(res.Viol, Violation{Msg: "uncaught " + uncaught, Kind: "panic", Replay: res.Replay, Obs: res.Obs})
	}
	if len(res.Viol) > 0 {
		res.Status = "violation"
	} else {
		res.Status = "ok"
	}
	return
}
