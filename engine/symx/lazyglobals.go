package symx

// Lazy initialisation of package-level variables of packages whose
// initialiser is not run (DESIGN.md §2.1 "Package globals" (b)): on the first
// read of such a global, the straight-line slice of its package's init that
// computes the value stored into it is executed. If the slice is not
// straight-line code over supported instructions, the read is reported in
// evidence as a read of an uninitialised-package global instead.

import (
	"golang.org/x/tools/go/ssa"
)

func (i *interpreter) lazyInitGlobal(g *ssa.Global) bool {
	if done, ok := i.lazyDone[g]; ok {
		return done
	}
	i.lazyDone[g] = false
	init := g.Pkg.Func("init")
	if init == nil || len(init.Blocks) == 0 {
		return false
	}
	var st0 *ssa.Store
	for _, b := range init.Blocks {
		for _, ins := range b.Instrs {
			if st, ok := ins.(*ssa.Store); ok && st.Addr == ssa.Value(g) {
				if st0 != nil {
					return false // stored more than once: not a plain initialiser
				}
				st0 = st
			}
		}
	}
	if st0 == nil {
		i.lazyDone[g] = true // never assigned in init: the zero value is its value
		return true
	}
	// collect the operand closure of the stored value, in block order
	need := map[ssa.Instruction]bool{}
	ok := true
	var visit func(v ssa.Value)
	visit = func(v ssa.Value) {
		switch x := v.(type) {
		case *ssa.Const, *ssa.Function, *ssa.Builtin, nil:
			return
		case *ssa.Global:
			if x != g && !i.initAllow[x.Pkg.Pkg.Path()] {
				if !i.lazyInitGlobal(x) {
					ok = false
				}
			}
			return
		}
		ins, isIns := v.(ssa.Instruction)
		if !isIns || ins.Block() == nil || ins.Parent() != init {
			ok = false
			return
		}
		if need[ins] {
			return
		}
		switch x := ins.(type) {
		case *ssa.Call:
			if x.Call.IsInvoke() {
				ok = false
				return
			}
		case *ssa.MakeInterface, *ssa.Convert, *ssa.ChangeType, *ssa.UnOp, *ssa.BinOp, *ssa.Alloc, *ssa.MakeClosure, *ssa.ChangeInterface:
		default:
			ok = false
			return
		}
		need[ins] = true
		for _, op := range ins.Operands(nil) {
			if op != nil && *op != nil {
				visit(*op)
			}
		}
	}
	visit(st0.Val)
	if !ok {
		return false
	}
	fr := &frame{i: i, fn: init, env: map[ssa.Value]value{}}
	for _, l := range init.Locals {
		cell := zero(mustDeref(l.Type()))
		fr.env[l] = &cell
	}
	failed := false
	func() {
		defer func() {
			if p := recover(); p != nil {
				if isEnginePanic(p) {
					panic(p)
				}
				failed = true
			}
		}()
		saved := i.ex
		_ = saved
		for _, b := range init.Blocks {
			for _, ins := range b.Instrs {
				if need[ins] {
					fr.block = b
					visitInstr(fr, ins)
				}
			}
		}
		cell := i.globals[g]
		store(mustDeref(g.Type()), cell, fr.get(st0.Val))
	}()
	if failed {
		return false
	}
	i.lazyDone[g] = true
	return true
}
