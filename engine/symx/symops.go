package symx

// Symbolic values and the operators over them.

import (
	"fmt"
	"go/token"
	"go/types"
	"sort"
	"strconv"
	"strings"
)

// symVal is a symbolic integer or boolean of Go basic kind k.
type symVal struct {
	t *Term
	k types.BasicKind
}

// symString is a string of concrete length with at least one symbolic
// byte. Elements are uint8 or symVal{k: Uint8}. Immutable.
type symString []value

func kindWidth(k types.BasicKind) int {
	switch k {
	case types.Bool, types.UntypedBool:
		return 0
	case types.Int8, types.Uint8:
		return 8
	case types.Int16, types.Uint16:
		return 16
	case types.Int32, types.Uint32, types.UntypedRune:
		return 32
	case types.Int, types.Int64, types.Uint, types.Uint64, types.Uintptr, types.UntypedInt:
		return 64
	}
	panic(engineError(fmt.Sprintf("kindWidth: kind %v", k)))
}

func kindSigned(k types.BasicKind) bool {
	switch k {
	case types.Int, types.Int8, types.Int16, types.Int32, types.Int64, types.UntypedInt, types.UntypedRune:
		return true
	}
	return false
}

func kindOfValue(v value) (types.BasicKind, bool) {
	switch v := v.(type) {
	case symVal:
		return v.k, true
	case bool:
		return types.Bool, true
	case int:
		return types.Int, true
	case int8:
		return types.Int8, true
	case int16:
		return types.Int16, true
	case int32:
		return types.Int32, true
	case int64:
		return types.Int64, true
	case uint:
		return types.Uint, true
	case uint8:
		return types.Uint8, true
	case uint16:
		return types.Uint16, true
	case uint32:
		return types.Uint32, true
	case uint64:
		return types.Uint64, true
	case uintptr:
		return types.Uintptr, true
	}
	return 0, false
}

func isSym(v value) bool {
	switch v.(type) {
	case symVal, symString:
		return true
	}
	return false
}

// toTerm converts an integer/bool value (concrete or symbolic) to a term.
func toTerm(v value) *Term {
	switch v := v.(type) {
	case symVal:
		return v.t
	case bool:
		return tBool(v)
	}
	k, ok := kindOfValue(v)
	if !ok {
		panic(engineError(fmt.Sprintf("toTerm: %T", v)))
	}
	return tConst(kindWidth(k), uint64(asInt64(v)))
}

// fromTerm boxes a term as a value of kind k (concrete when constant).
func fromTerm(t *Term, k types.BasicKind) value {
	if !t.IsConst() {
		return symVal{t, k}
	}
	return concreteOfKind(t.Val, k)
}

func concreteOfKind(v uint64, k types.BasicKind) value {
	switch k {
	case types.Bool, types.UntypedBool:
		return v == 1
	case types.Int, types.UntypedInt:
		return int(v)
	case types.Int8:
		return int8(v)
	case types.Int16:
		return int16(v)
	case types.Int32, types.UntypedRune:
		return int32(v)
	case types.Int64:
		return int64(v)
	case types.Uint:
		return uint(v)
	case types.Uint8:
		return uint8(v)
	case types.Uint16:
		return uint16(v)
	case types.Uint32:
		return uint32(v)
	case types.Uint64:
		return v
	case types.Uintptr:
		return uintptr(v)
	}
	panic(engineError(fmt.Sprintf("concreteOfKind: %v", k)))
}

// mkString normalises a byte vector into string or symString.
func mkString(b []value) value {
	allc := true
	for _, x := range b {
		if _, ok := x.(uint8); !ok {
			allc = false
			break
		}
	}
	if allc {
		bs := make([]byte, len(b))
		for i, x := range b {
			bs[i] = x.(uint8)
		}
		return string(bs)
	}
	out := make(symString, len(b))
	copy(out, b)
	return out
}

// strBytes views a string value as a byte vector (do not mutate).
func strBytes(v value) []value {
	switch v := v.(type) {
	case string:
		out := make([]value, len(v))
		for i := 0; i < len(v); i++ {
			out[i] = v[i]
		}
		return out
	case symString:
		return []value(v)
	}
	panic(engineError(fmt.Sprintf("strBytes: %T", v)))
}

func isStringValue(v value) bool {
	switch v.(type) {
	case string, symString:
		return true
	}
	return false
}

func strLen(v value) int {
	switch v := v.(type) {
	case string:
		return len(v)
	case symString:
		return len(v)
	}
	panic(engineError(fmt.Sprintf("strLen: %T", v)))
}

func byteTerm(v value) *Term {
	switch v := v.(type) {
	case uint8:
		return tConst(8, uint64(v))
	case symVal:
		if v.t.W != 8 {
			panic(engineError("byteTerm: width"))
		}
		return v.t
	}
	panic(engineError(fmt.Sprintf("byteTerm: %T", v)))
}

// strEqTerm is the term "x == y" for two string values.
func strEqTerm(x, y value) *Term {
	if strLen(x) != strLen(y) {
		return tBool(false)
	}
	if xs, ok := x.(string); ok {
		if ys, ok := y.(string); ok {
			return tBool(xs == ys)
		}
	}
	xb, yb := strBytes(x), strBytes(y)
	r := tBool(true)
	for i := range xb {
		r = tAnd(r, tEq(byteTerm(xb[i]), byteTerm(yb[i])))
		if r.IsFalse() {
			return r
		}
	}
	return r
}

// strLtTerm is the term "x < y" (lexicographic, bytewise).
func strLtTerm(x, y value) *Term {
	xb, yb := strBytes(x), strBytes(y)
	n := len(xb)
	if len(yb) < n {
		n = len(yb)
	}
	// result = OR_i (prefix equal up to i and x[i] < y[i]) OR (all n equal and len(x) < len(y))
	res := tBool(false)
	eqPrefix := tBool(true)
	for i := 0; i < n; i++ {
		a, b := byteTerm(xb[i]), byteTerm(yb[i])
		res = tOr(res, tAnd(eqPrefix, tCmp(OpUlt, a, b)))
		eqPrefix = tAnd(eqPrefix, tEq(a, b))
	}
	if len(xb) < len(yb) {
		res = tOr(res, eqPrefix)
	}
	return res
}

func boolVal(t *Term) value { return fromTerm(t, types.Bool) }

// symBinop handles a binary operator when at least one operand is symbolic.
func (i *interpreter) symBinop(op token.Token, t types.Type, x, y value) value {
	if isStringValue(x) && isStringValue(y) {
		switch op {
		case token.ADD:
			return mkString(append(append([]value{}, strBytes(x)...), strBytes(y)...))
		case token.EQL:
			return boolVal(strEqTerm(x, y))
		case token.NEQ:
			return boolVal(tNot(strEqTerm(x, y)))
		case token.LSS:
			return boolVal(strLtTerm(x, y))
		case token.GTR:
			return boolVal(strLtTerm(y, x))
		case token.LEQ:
			return boolVal(tNot(strLtTerm(y, x)))
		case token.GEQ:
			return boolVal(tNot(strLtTerm(x, y)))
		}
		panic(engineError("symBinop string op " + op.String()))
	}
	kx, okx := kindOfValue(x)
	ky, oky := kindOfValue(y)
	if !okx || !oky {
		// comparison of composite values containing symbolic parts
		switch op {
		case token.EQL:
			return boolVal(i.eqTerm(t, x, y))
		case token.NEQ:
			return boolVal(tNot(i.eqTerm(t, x, y)))
		}
		panic(engineError(fmt.Sprintf("symBinop: %T %s %T", x, op, y)))
	}
	a, b := toTerm(x), toTerm(y)
	signed := kindSigned(kx)
	switch op {
	case token.SHL, token.SHR:
		return fromTerm(i.shiftTerm(op, a, b, signed, kindSigned(ky)), kx)
	}
	if kx != ky && !(kindWidth(kx) == kindWidth(ky)) {
		panic(engineError(fmt.Sprintf("symBinop kind mismatch %v %v", kx, ky)))
	}
	if kx == types.Bool {
		switch op {
		case token.EQL:
			return boolVal(tEq(a, b))
		case token.NEQ:
			return boolVal(tNot(tEq(a, b)))
		case token.AND, token.LAND:
			return boolVal(tAnd(a, b))
		case token.OR, token.LOR:
			return boolVal(tOr(a, b))
		}
		panic(engineError("symBinop bool op " + op.String()))
	}
	switch op {
	case token.ADD:
		return fromTerm(tBin(OpAdd, a, b), kx)
	case token.SUB:
		return fromTerm(tBin(OpSub, a, b), kx)
	case token.MUL:
		return fromTerm(tBin(OpMul, a, b), kx)
	case token.AND:
		return fromTerm(tBin(OpBAnd, a, b), kx)
	case token.OR:
		return fromTerm(tBin(OpBOr, a, b), kx)
	case token.XOR:
		return fromTerm(tBin(OpBXor, a, b), kx)
	case token.AND_NOT:
		return fromTerm(tBin(OpBAnd, a, tBNot(b)), kx)
	case token.QUO, token.REM:
		// integer division by zero panics
		if i.ex.Branch(tEq(b, tConst(b.W, 0))) {
			panic(runtimeErrorString("integer divide by zero"))
		}
		var o Op
		switch {
		case op == token.QUO && signed:
			o = OpSdiv
		case op == token.QUO:
			o = OpUdiv
		case signed:
			o = OpSrem
		default:
			o = OpUrem
		}
		return fromTerm(tBin(o, a, b), kx)
	case token.EQL:
		return boolVal(tEq(a, b))
	case token.NEQ:
		return boolVal(tNot(tEq(a, b)))
	case token.LSS:
		if signed {
			return boolVal(tCmp(OpSlt, a, b))
		}
		return boolVal(tCmp(OpUlt, a, b))
	case token.LEQ:
		if signed {
			return boolVal(tCmp(OpSle, a, b))
		}
		return boolVal(tCmp(OpUle, a, b))
	case token.GTR:
		if signed {
			return boolVal(tCmp(OpSlt, b, a))
		}
		return boolVal(tCmp(OpUlt, b, a))
	case token.GEQ:
		if signed {
			return boolVal(tCmp(OpSle, b, a))
		}
		return boolVal(tCmp(OpUle, b, a))
	}
	panic(engineError("symBinop int op " + op.String()))
}

type runtimeErrorString string

func (e runtimeErrorString) Error() string { return "runtime error: " + string(e) }
func (e runtimeErrorString) RuntimeError() {}

func (i *interpreter) shiftTerm(op token.Token, a, b *Term, signedX, signedY bool) *Term {
	if signedY {
		if i.ex.Branch(tCmp(OpSlt, b, tConst(b.W, 0))) {
			panic(runtimeErrorString("negative shift amount"))
		}
	}
	w := a.W
	// bring b to width w, clamping
	var cnt *Term
	var tooBig *Term
	if b.W > w {
		tooBig = tCmp(OpUle, tConst(b.W, uint64(w)), b)
		cnt = tExtract(b, w-1, 0)
	} else {
		cnt = tZext(b, w)
		tooBig = tBool(false)
	}
	var r *Term
	switch {
	case op == token.SHL:
		r = tBin(OpShl, a, cnt)
		r = tIte(tooBig, tConst(w, 0), r)
	case signedX:
		r = tBin(OpAshr, a, cnt)
		fill := tIte(tCmp(OpSlt, a, tConst(w, 0)), tConst(w, mask(w)), tConst(w, 0))
		r = tIte(tooBig, fill, r)
	default:
		r = tBin(OpLshr, a, cnt)
		r = tIte(tooBig, tConst(w, 0), r)
	}
	return r
}

func (i *interpreter) symUnop(op token.Token, x value) value {
	sv := x.(symVal)
	switch op {
	case token.NOT:
		return boolVal(tNot(sv.t))
	case token.SUB:
		return fromTerm(tNeg(sv.t), sv.k)
	case token.XOR:
		return fromTerm(tBNot(sv.t), sv.k)
	}
	panic(engineError("symUnop " + op.String()))
}

// eqTerm is the term for x == y at static type t (deep, for structs,
// arrays, interfaces, strings, scalars).
func (i *interpreter) eqTerm(t types.Type, x, y value) *Term {
	if isStringValue(x) && isStringValue(y) {
		return strEqTerm(x, y)
	}
	switch x := x.(type) {
	case symVal:
		return tEq(x.t, toTerm(y))
	case structure:
		ys := y.(structure)
		r := tBool(true)
		st, _ := t.Underlying().(*types.Struct)
		for k := range x {
			var ft types.Type
			if st != nil {
				if st.Field(k).Name() == "_" {
					continue
				}
				ft = st.Field(k).Type()
			}
			r = tAnd(r, i.eqTerm(ft, x[k], ys[k]))
		}
		return r
	case array:
		ya := y.(array)
		r := tBool(true)
		var et types.Type
		if at, ok := t.Underlying().(*types.Array); ok {
			et = at.Elem()
		}
		for k := range x {
			r = tAnd(r, i.eqTerm(et, x[k], ya[k]))
		}
		return r
	case iface:
		yi := y.(iface)
		if !sameType(x.t, yi.t) {
			return tBool(false)
		}
		if x.t == nil {
			return tBool(true)
		}
		return i.eqTerm(x.t, x.v, yi.v)
	}
	if _, ok := y.(symVal); ok {
		return tEq(toTerm(x), toTerm(y))
	}
	return tBool(eqnilConcrete(t, x, y))
}

func containsSym(v value) bool {
	switch v := v.(type) {
	case symVal, symString:
		return true
	case structure:
		for _, f := range v {
			if containsSym(f) {
				return true
			}
		}
	case array:
		for _, f := range v {
			if containsSym(f) {
				return true
			}
		}
	case iface:
		return containsSym(v.v)
	}
	return false
}

// symConv converts symbolic x from t_src to t_dst.
func (i *interpreter) symConv(t_dst, t_src types.Type, x value) value {
	ut_dst := t_dst.Underlying()
	switch x := x.(type) {
	case symString:
		switch d := ut_dst.(type) {
		case *types.Basic:
			if d.Kind() == types.String {
				return x
			}
		case *types.Slice:
			if b, ok := d.Elem().Underlying().(*types.Basic); ok && b.Kind() == types.Byte {
				out := make([]value, len(x))
				copy(out, x)
				return out
			}
			// []rune(s): decode
			var out []value
			rest := []value(x)
			for len(rest) > 0 {
				r, n := i.decodeRune(rest)
				out = append(out, r)
				rest = rest[n:]
			}
			return out
		}
	case symVal:
		d, ok := ut_dst.(*types.Basic)
		if !ok {
			break
		}
		if d.Kind() == types.String {
			// string(rune): needs UTF-8 encoding of a symbolic rune
			v := i.ex.Concretize(x.t)
			return string(rune(sext64(v, x.t.W)))
		}
		if d.Info()&types.IsFloat != 0 {
			v := i.ex.Concretize(x.t)
			return conv(t_dst, t_src, concreteOfKind(v, x.k))
		}
		if d.Info()&types.IsInteger != 0 {
			w := kindWidth(d.Kind())
			var t *Term
			if kindSigned(x.k) {
				t = tSext(x.t, w)
			} else {
				t = tZext(x.t, w)
			}
			return fromTerm(t, d.Kind())
		}
	case []value:
		// []byte -> string with symbolic bytes
		if d, ok := ut_dst.(*types.Basic); ok && d.Kind() == types.String {
			return mkString(x)
		}
	}
	panic(engineError(fmt.Sprintf("symConv: %s -> %s (%T)", t_src, t_dst, x)))
}

// decodeRune decodes the first UTF-8 sequence of b (len(b) > 0), forking on
// the classes of symbolic bytes; mirrors utf8.DecodeRuneInString exactly.
func (i *interpreter) decodeRune(b []value) (value, int) {
	runeErr := int32(0xFFFD)
	b0 := byteTerm(b[0])
	c := func(v uint64) *Term { return tConst(8, v) }
	inRange := func(t *Term, lo, hi uint64) *Term {
		return tAnd(tCmp(OpUle, c(lo), t), tCmp(OpUle, t, c(hi)))
	}
	br := i.ex.Branch
	if br(tCmp(OpUlt, b0, c(0x80))) {
		return fromTerm(tZext(b0, 32), types.Int32), 1
	}
	// two-byte: C2..DF
	if br(inRange(b0, 0xC2, 0xDF)) {
		if len(b) < 2 {
			return runeErr, 1
		}
		b1 := byteTerm(b[1])
		if !br(inRange(b1, 0x80, 0xBF)) {
			return runeErr, 1
		}
		r := tBin(OpBOr,
			tBin(OpShl, tZext(tBin(OpBAnd, b0, c(0x1F)), 32), tConst(32, 6)),
			tZext(tBin(OpBAnd, b1, c(0x3F)), 32))
		return fromTerm(r, types.Int32), 2
	}
	// three-byte: E0..EF
	if br(inRange(b0, 0xE0, 0xEF)) {
		if len(b) < 3 {
			// invalid or short
			return runeErr, 1
		}
		b1, b2 := byteTerm(b[1]), byteTerm(b[2])
		// accept ranges for second byte depend on lead
		lo := tIte(tEq(b0, c(0xE0)), c(0xA0), c(0x80))
		hi := tIte(tEq(b0, c(0xED)), c(0x9F), c(0xBF))
		ok1 := tAnd(tCmp(OpUle, lo, b1), tCmp(OpUle, b1, hi))
		if !br(ok1) {
			return runeErr, 1
		}
		if !br(inRange(b2, 0x80, 0xBF)) {
			return runeErr, 1
		}
		r := tBin(OpBOr, tBin(OpBOr,
			tBin(OpShl, tZext(tBin(OpBAnd, b0, c(0x0F)), 32), tConst(32, 12)),
			tBin(OpShl, tZext(tBin(OpBAnd, b1, c(0x3F)), 32), tConst(32, 6))),
			tZext(tBin(OpBAnd, b2, c(0x3F)), 32))
		return fromTerm(r, types.Int32), 3
	}
	// four-byte: F0..F4
	if br(inRange(b0, 0xF0, 0xF4)) {
		if len(b) < 4 {
			return runeErr, 1
		}
		b1, b2, b3 := byteTerm(b[1]), byteTerm(b[2]), byteTerm(b[3])
		lo := tIte(tEq(b0, c(0xF0)), c(0x90), c(0x80))
		hi := tIte(tEq(b0, c(0xF4)), c(0x8F), c(0xBF))
		ok1 := tAnd(tCmp(OpUle, lo, b1), tCmp(OpUle, b1, hi))
		if !br(ok1) {
			return runeErr, 1
		}
		if !br(inRange(b2, 0x80, 0xBF)) {
			return runeErr, 1
		}
		if !br(inRange(b3, 0x80, 0xBF)) {
			return runeErr, 1
		}
		r := tBin(OpBOr, tBin(OpBOr, tBin(OpBOr,
			tBin(OpShl, tZext(tBin(OpBAnd, b0, c(0x07)), 32), tConst(32, 18)),
			tBin(OpShl, tZext(tBin(OpBAnd, b1, c(0x3F)), 32), tConst(32, 12))),
			tBin(OpShl, tZext(tBin(OpBAnd, b2, c(0x3F)), 32), tConst(32, 6))),
			tZext(tBin(OpBAnd, b3, c(0x3F)), 32))
		return fromTerm(r, types.Int32), 4
	}
	return runeErr, 1
}

// symStringIter implements range over a string with symbolic bytes.
type symStringIter struct {
	i   *interpreter
	b   []value
	off int
}

func (it *symStringIter) next() tuple {
	okv := make(tuple, 3)
	if it.off >= len(it.b) {
		okv[0] = false
		return okv
	}
	r, n := it.i.decodeRune(it.b[it.off:])
	okv[0] = true
	okv[1] = it.off
	okv[2] = r
	it.off += n
	return okv
}

// ---------------------------------------------------------------------------
// Rendering of observed values (must agree with the native vx formatter).

func renderValue(v value, m Model, memo map[int]uint64) string {
	switch v := v.(type) {
	case nil:
		return "<nil>"
	case bool:
		return strconv.FormatBool(v)
	case symVal:
		val := v.t.Eval(m, memo)
		return renderValue(concreteOfKind(val, v.k), m, memo)
	case string:
		return strconv.Quote(v)
	case symString:
		bs := make([]byte, len(v))
		for k, x := range v {
			switch x := x.(type) {
			case uint8:
				bs[k] = x
			case symVal:
				bs[k] = byte(x.t.Eval(m, memo))
			}
		}
		return strconv.Quote(string(bs))
	case int, int8, int16, int32, int64:
		return strconv.FormatInt(asInt64(v), 10)
	case uint, uint8, uint16, uint32, uint64, uintptr:
		return strconv.FormatUint(uint64(asInt64(v)), 10)
	case []value:
		if v == nil {
			return "[]"
		}
		parts := make([]string, len(v))
		for k, x := range v {
			parts[k] = renderValue(x, m, memo)
		}
		return "[" + strings.Join(parts, " ") + "]"
	case *symMap:
		var parts []string
		if v == nil {
			return "{}"
		}
		for _, e := range v.entries {
			parts = append(parts, renderValue(e.k, m, memo)+":"+renderValue(e.v, m, memo))
		}
		sort.Strings(parts)
		return "{" + strings.Join(parts, " ") + "}"
	case iface:
		if v.t == nil {
			return "<nil>"
		}
		return renderValue(v.v, m, memo)
	case structure:
		parts := make([]string, len(v))
		for k, x := range v {
			parts[k] = renderValue(x, m, memo)
		}
		return "{" + strings.Join(parts, " ") + "}"
	case *value:
		if v == nil {
			return "<nilptr>"
		}
		return "&" + renderValue(*v, m, memo)
	}
	return fmt.Sprintf("<%T>", v)
}

func toStringSym(v value) string {
	if it, ok := v.(iface); ok {
		v = it.v
	}
	return renderValue(v, Model{}, map[int]uint64{})
}
