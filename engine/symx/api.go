package symx

// Public API: load /repo (with harness overlays) as SSA, run harness
// functions symbolically, report per-job results.

import (
	"fmt"
	"go/token"
	"go/types"
	"os"
	"sort"
	"strings"
	"time"

	"golang.org/x/tools/go/packages"
	"golang.org/x/tools/go/ssa"
	"golang.org/x/tools/go/ssa/ssautil"
)

type Program struct {
	Prog   *ssa.Program
	Pkgs   map[string]*ssa.Package
	LoadMS int64
}

// Load type-checks and builds SSA for the given patterns under dir, with
// overlay files (path -> contents).
func Load(dir string, overlay map[string][]byte, patterns ...string) (*Program, error) {
	start := time.Now()
	cfg := &packages.Config{
		Mode:       packages.LoadAllSyntax,
		Dir:        dir,
		Overlay:    overlay,
		Env:        append(os.Environ(), "GOFLAGS=-mod=mod", "GOPROXY=off", "GOSUMDB=off", "GOTOOLCHAIN=local"),
		BuildFlags: []string{"-tags=verif"},
	}
	pkgs, err := packages.Load(cfg, patterns...)
	if err != nil {
		return nil, err
	}
	var errs []string
	packages.Visit(pkgs, nil, func(p *packages.Package) {
		for _, e := range p.Errors {
			errs = append(errs, e.Error())
		}
	})
	if len(errs) > 0 {
		return nil, fmt.Errorf("load errors:\n%s", strings.Join(errs, "\n"))
	}
	prog, _ := ssautil.AllPackages(pkgs, ssa.InstantiateGenerics|ssa.SanityCheckFunctions&0)
	prog.Build()
	out := &Program{Prog: prog, Pkgs: map[string]*ssa.Package{}}
	for _, p := range prog.AllPackages() {
		out.Pkgs[p.Pkg.Path()] = p
	}
	out.LoadMS = time.Since(start).Milliseconds()
	return out, nil
}

// Packages whose initialisers are plain data and run cleanly under the
// interpreter. Every other package's init is skipped; globals of skipped
// packages stay zero (reads of them by encoded code would show up as nil
// dereferences, never silently).
var defaultInitAllow = []string{
	"github.com/flamego/flamego", "github.com/flamego/flamego/internal/route",
	"github.com/flamego/flamego/inject", "github.com/flamego/flamego/internal/vx",
	"strings", "bytes", "unicode", "unicode/utf8", "net/url", "regexp", "regexp/syntax",
	"strconv", "sort", "math/bits", "io", "internal/bytealg", "github.com/pkg/errors",
	"path", "internal/stringslite", "encoding/base64", "internal/filepathlite", "io/fs", "internal/oserror", "path/filepath",
}

type Job struct {
	ID            string            `json:"id"`
	Pkg           string            `json:"pkg"`
	Setup         string            `json:"setup,omitempty"`
	Body          string            `json:"body"`
	Params        map[string]string `json:"params,omitempty"`
	MaxSteps      int               `json:"max_steps,omitempty"`
	MaxDepth      int               `json:"max_depth,omitempty"`
	MaxPaths      int               `json:"max_paths,omitempty"`
	Solver        string            `json:"solver,omitempty"`
	TimeoutMS     int               `json:"timeout_ms,omitempty"`
	KeepWitnesses int               `json:"keep_witnesses,omitempty"`
	WantPC        bool              `json:"want_pc,omitempty"`
	Shard         int               `json:"shard,omitempty"`
	Shards        int               `json:"shards,omitempty"`
	ShardDepth    int               `json:"shard_depth,omitempty"`
	RootPrefix    []Decision        `json:"root_prefix,omitempty"`
	SetupEachPath bool              `json:"setup_each_path,omitempty"`
	NoSetupGuard  bool              `json:"no_setup_guard,omitempty"`
	Gen           int               `json:"gen,omitempty"`
	ShedMS        int               `json:"shed_ms,omitempty"`
	Base          string            `json:"base,omitempty"`
}

type Witness struct {
	Replay    []uint64 `json:"replay"`
	Obs       []string `json:"obs"`
	Panic     string   `json:"panic,omitempty"`
	PC        string   `json:"pc,omitempty"`
	Violating bool     `json:"violating,omitempty"`
}

type JobResult struct {
	ID             string            `json:"id"`
	Params         map[string]string `json:"params,omitempty"`
	Body           string            `json:"body"`
	Paths          int               `json:"paths"`
	ByStatus       map[string]int    `json:"by_status"`
	Decisions      int               `json:"decisions"`
	Forced         int               `json:"forced"`
	Asserts        int               `json:"asserts"`
	TrivialAsserts int               `json:"trivial_asserts"`
	ByteDecided    int               `json:"byteset_decided"`
	Base           string            `json:"base,omitempty"`
	Steps          int64             `json:"steps"`
	Violations     []Violation       `json:"violations,omitempty"`
	Witnesses      []Witness         `json:"witnesses,omitempty"`
	ObsClasses     int               `json:"obs_classes"`
	Reached        []string          `json:"reached,omitempty"`
	Inconclusive   []string          `json:"inconclusive,omitempty"`
	Solver         SolverStats       `json:"solver"`
	SolverName     string            `json:"solver_name"`
	Fns            []string          `json:"fns,omitempty"`
	Externals      []string          `json:"externals,omitempty"`
	WallMS         int64             `json:"wall_ms"`
	EngineError    string            `json:"engine_error,omitempty"`
	SetupError     string            `json:"setup_error,omitempty"`
	StoreMon       map[string]int    `json:"storemon,omitempty"`
	Tasks          int               `json:"tasks,omitempty"`
	Notes          []string          `json:"notes,omitempty"`
	Gen            int               `json:"gen,omitempty"`
	UninitGlobals  []string          `json:"uninit_globals,omitempty"`
}

type Interp struct {
	i    *interpreter
	prog *Program
}

// NewInterp prepares an interpreter whose package initialisers (allow-list
// only) have run, starting from root package path.
func NewInterp(p *Program, root string) (*Interp, error) {
	mainpkg := p.Pkgs[root]
	if mainpkg == nil {
		return nil, fmt.Errorf("package %s not loaded", root)
	}
	i := &interpreter{
		prog:       p.Prog,
		globals:    make(map[*ssa.Global]*value),
		sizes:      &types.StdSizes{WordSize: 8, MaxAlign: 8},
		goroutines: 1,
		built:      map[*ssa.Package]bool{},
		initAllow:  map[string]bool{},
		fnNames:    map[*ssa.Function]string{},
		onceActive: map[*value]bool{},
		lazyDone:   map[*ssa.Global]bool{},
		pools:      map[*value][]value{},
		mainPkg:    mainpkg,
	}
	for _, a := range defaultInitAllow {
		i.initAllow[a] = true
	}
	runtimePkg := i.prog.ImportedPackage("runtime")
	if runtimePkg == nil {
		return nil, fmt.Errorf("ssa.Program doesn't include runtime package")
	}
	i.runtimeErrorString = runtimePkg.Type("errorString").Object().Type()
	i.runtimeErrorType = i.runtimeErrorString
	initReflect(i)
	for _, pkg := range i.prog.AllPackages() {
		for _, m := range pkg.Members {
			if v, ok := m.(*ssa.Global); ok {
				cell := zero(mustDeref(v.Type()))
				i.globals[v] = &cell
			}
		}
	}
	i.ex = NewExplorer(nil)
	i.ex.interp = i
	var err error
	func() {
		defer func() {
			if p := recover(); p != nil {
				err = fmt.Errorf("package init failed: %v%s", describePanic(p), i.takePanicStack())
			}
		}()
		call(i, nil, token.NoPos, mainpkg.Func("init"), nil)
		// allow-listed packages that are only imported through packages whose
		// initialisers are skipped (each init is guarded, so this is idempotent)
		for _, path := range defaultInitAllow {
			if pk := p.Pkgs[path]; pk != nil && pk.Func("init") != nil {
				call(i, nil, token.NoPos, pk.Func("init"), nil)
			}
		}
	}()
	if err != nil {
		return nil, err
	}
	return &Interp{i: i, prog: p}, nil
}

func describePanic(p interface{}) string {
	switch p := p.(type) {
	case targetPanic:
		return "target panic: " + toStringSym(p.v)
	case error:
		return p.Error()
	}
	return fmt.Sprint(p)
}

// RunJob explores one harness.
// RunJob explores one harness. The set-up function normally runs once and the
// body once per path; that is sound only while the body does not change what
// set-up built. If a replay diverges (the body did change it, e.g. a cache
// inside the code under test), the job is run again with set-up repeated at
// the start of every path.
func (in *Interp) RunJob(job Job, shed func([][]Decision)) (res JobResult) {
	res = in.runJob(job, shed, job.SetupEachPath)
	res.Gen = job.Gen
	if strings.HasPrefix(res.EngineError, "replay divergence") && job.Setup != "" && len(job.RootPrefix) == 0 && !job.SetupEachPath && shed == nil {
		first := res.EngineError
		res = in.runJob(job, nil, true)
		res.Notes = append(res.Notes, "set-up repeated per path after: "+first)
	}
	return res
}

func (in *Interp) runJob(job Job, shed func([][]Decision), setupEachPath bool) (res JobResult) {
	start := time.Now()
	res.ID = job.ID
	res.Params = job.Params
	res.Body = job.Body
	res.ByStatus = map[string]int{}
	pkg := in.prog.Pkgs[job.Pkg]
	if pkg == nil {
		res.EngineError = "package not loaded: " + job.Pkg
		return
	}
	body := pkg.Func(job.Body)
	if body == nil {
		res.EngineError = "no such harness function: " + job.Body
		return
	}
	solverName := job.Solver
	if solverName == "" {
		solverName = "z3"
	}
	tmo := job.TimeoutMS
	if tmo == 0 {
		tmo = 10000
	}
	s, err := NewSolver(solverName, tmo)
	if err != nil {
		res.EngineError = "solver: " + err.Error()
		return
	}
	defer s.Close()
	resetTerms()
	termVarsMemo = map[int][]*Term{}
	ex := NewExplorer(s)
	ex.interp = in.i
	ex.Params = job.Params
	if job.MaxSteps > 0 {
		ex.MaxSteps = job.MaxSteps
	}
	if job.MaxDepth > 0 {
		ex.MaxDepth = job.MaxDepth
	}
	if job.MaxPaths > 0 {
		ex.MaxPaths = job.MaxPaths
	}
	ex.WantPC = job.WantPC
	ex.RootPrefix = job.RootPrefix
	if shed != nil && job.ShedMS >= 0 {
		ex.Shed = shed
		ex.ShedEvery = time.Duration(job.ShedMS) * time.Millisecond
		if job.ShedMS == 0 {
			ex.ShedEvery = 1500 * time.Millisecond
		}
	}
	ex.Shard, ex.Shards, ex.ShardDepth = job.Shard, job.Shards, job.ShardDepth
	if ex.ShardDepth == 0 {
		ex.ShardDepth = 8
	}
	in.i.ex = ex
	res.SolverName = solverName

	defer func() {
		if p := recover(); p != nil {
			if ee, ok := p.(engineError); ok {
				res.EngineError = string(ee)
			} else {
				res.EngineError = fmt.Sprintf("host panic: %v", p)
				if os.Getenv("SYMX_DEBUG_PANIC") != "" {
					panic(p)
				}
			}
		}
		res.Solver = s.Stats
		res.WallMS = time.Since(start).Milliseconds()
		res.Decisions = ex.TotalDecisions
		res.Forced = ex.TotalForced
		res.Asserts = ex.TotalAsserts
		res.TrivialAsserts = ex.TrivialAsserts
		res.ByteDecided = ex.ByteDecided
		res.Base = job.Base
		var fns, exts []string
		for k := range ex.FnsTouched {
			if strings.HasPrefix(k, "ext:") {
				exts = append(exts, k[4:])
			} else {
				fns = append(fns, k)
			}
		}
		sort.Strings(fns)
		sort.Strings(exts)
		res.Fns = fns
		res.Externals = exts
		for k := range ex.UninitGlobals {
			res.UninitGlobals = append(res.UninitGlobals, k)
		}
		sort.Strings(res.UninitGlobals)
		if len(ex.MonTotals) > 0 {
			res.StoreMon = ex.MonTotals
		}
	}()

	var setupFn *ssa.Function
	if job.Setup != "" && setupEachPath {
		setupFn = pkg.Func(job.Setup)
		if setupFn == nil {
			res.EngineError = "no such setup function: " + job.Setup
			return
		}
	}
	if job.Setup != "" && !setupEachPath {
		setup := pkg.Func(job.Setup)
		if setup == nil {
			res.EngineError = "no such setup function: " + job.Setup
			return
		}
		var serr string
		func() {
			defer func() {
				if p := recover(); p != nil {
					if ee, ok := p.(engineError); ok {
						panic(ee)
					}
					serr = describePanic(p)
				}
			}()
			ex.beginPath(nil)
			call(in.i, nil, token.NoPos, setup, nil)
		}()
		if serr != "" {
			res.SetupError = serr
			return
		}
		if !job.NoSetupGuard {
			ex.Guard = newSetupGuard(in.i, "github.com/flamego/flamego")
		}
	}

	keep := job.KeepWitnesses
	if keep == 0 {
		keep = 24
	}
	classes := map[string]int{}
	symClasses := map[string]int{}
	ex.NeedModel = func(c string) bool {
		symClasses[c]++
		return symClasses[c] == 1 && len(symClasses) <= keep*4
	}
	reached := map[string]bool{}
	violSeen := map[string]int{}
	ex.RunAll(func() {
		if setupFn != nil {
			call(in.i, nil, token.NoPos, setupFn, nil)
		}
		call(in.i, nil, token.NoPos, body, nil)
	}, func(pr PathResult) {
		if pr.Status == "othershard" {
			return
		}
		res.Paths++
		res.ByStatus[pr.Status]++
		res.Steps += int64(pr.Steps)
		for _, r := range pr.Reached {
			reached[r] = true
		}
		if pr.Status == "budget" {
			res.Inconclusive = append(res.Inconclusive, pr.Reason)
		}
		for _, v := range pr.Viol {
			if v.Kind == "unknown" {
				res.Inconclusive = append(res.Inconclusive, "solver unknown at assertion: "+v.Msg)
				continue
			}
			key := v.Kind + "|" + v.Msg + "|" + v.Pos
			violSeen[key]++
			if violSeen[key] <= 3 && len(res.Violations) < 60 {
				res.Violations = append(res.Violations, v)
			}
		}
		if pr.Status == "ok" || pr.Status == "violation" {
			if pr.Replay != nil {
				cls := obsClass(pr.Obs) + "|" + pr.Panic
				classes[cls]++
				if classes[cls] == 1 && len(res.Witnesses) < keep {
					res.Witnesses = append(res.Witnesses, Witness{Replay: pr.Replay, Obs: pr.Obs, Panic: pr.Panic, PC: pr.PCText, Violating: pr.Status == "violation"})
				}
			}
		}
	})
	res.ObsClasses = len(classes)
	for k := range reached {
		res.Reached = append(res.Reached, k)
	}
	sort.Strings(res.Reached)
	if ex.Unknowns > 0 {
		res.Inconclusive = append(res.Inconclusive, fmt.Sprintf("%d solver unknown/timeouts", ex.Unknowns))
	}
	if s.Stats.Errors > 0 {
		res.Inconclusive = append(res.Inconclusive, fmt.Sprintf("%d solver (error lines", s.Stats.Errors))
	}
	if len(res.Inconclusive) > 20 {
		n := len(res.Inconclusive)
		res.Inconclusive = append(res.Inconclusive[:20], fmt.Sprintf("... %d more", n-20))
	}
	return
}

// obsClass abstracts an observation log to its tags and leading values so
// that witnesses are kept per outcome class.
func obsClass(obs []string) string {
	var sb strings.Builder
	for _, o := range obs {
		f := strings.Fields(o)
		if len(f) > 0 {
			sb.WriteString(f[0])
			if len(f) > 1 && len(f[1]) < 12 {
				sb.WriteString("=" + f[1])
			}
			sb.WriteString(";")
		}
	}
	return sb.String()
}

// MergeResults folds the result of a sub-task into the accumulated result
// of its job (tasks partition the path tree, so counts add up).
func MergeResults(acc *JobResult, r JobResult, keep int) {
	if acc.ID == "" {
		*acc = r
		acc.Tasks = 1
		return
	}
	acc.Tasks++
	acc.Paths += r.Paths
	for k, v := range r.ByStatus {
		acc.ByStatus[k] += v
	}
	acc.Decisions += r.Decisions
	acc.Forced += r.Forced
	acc.Asserts += r.Asserts
	acc.TrivialAsserts += r.TrivialAsserts
	acc.ByteDecided += r.ByteDecided
	acc.Steps += r.Steps
	for _, v := range r.Violations {
		if len(acc.Violations) < 60 {
			acc.Violations = append(acc.Violations, v)
		}
	}
	seen := map[string]bool{}
	for _, w := range acc.Witnesses {
		seen[obsClass(w.Obs)+"|"+w.Panic] = true
	}
	for _, w := range r.Witnesses {
		c := obsClass(w.Obs) + "|" + w.Panic
		if !seen[c] && len(acc.Witnesses) < keep {
			seen[c] = true
			acc.Witnesses = append(acc.Witnesses, w)
		}
	}
	acc.ObsClasses = len(seen)
	acc.Reached = unionSorted(acc.Reached, r.Reached)
	acc.Fns = unionSorted(acc.Fns, r.Fns)
	acc.Externals = unionSorted(acc.Externals, r.Externals)
	acc.UninitGlobals = unionSorted(acc.UninitGlobals, r.UninitGlobals)
	acc.Inconclusive = append(acc.Inconclusive, r.Inconclusive...)
	if len(acc.Inconclusive) > 20 {
		acc.Inconclusive = acc.Inconclusive[:20]
	}
	acc.Solver.Queries += r.Solver.Queries
	acc.Solver.Sat += r.Solver.Sat
	acc.Solver.Unsat += r.Solver.Unsat
	acc.Solver.Unknown += r.Solver.Unknown
	acc.Solver.Errors += r.Solver.Errors
	acc.Solver.WallNS += r.Solver.WallNS
	if r.Solver.MaxNS > acc.Solver.MaxNS {
		acc.Solver.MaxNS = r.Solver.MaxNS
	}
	acc.Solver.Resets += r.Solver.Resets
	acc.WallMS += r.WallMS
	if acc.EngineError == "" {
		acc.EngineError = r.EngineError
	}
	if acc.SetupError == "" {
		acc.SetupError = r.SetupError
	}
	for k, v := range r.StoreMon {
		if acc.StoreMon == nil {
			acc.StoreMon = map[string]int{}
		}
		if k == "shared_regions_at_mark" {
			if v > acc.StoreMon[k] {
				acc.StoreMon[k] = v
			}
			continue
		}
		acc.StoreMon[k] += v
	}
}

func unionSorted(a, b []string) []string {
	m := map[string]bool{}
	for _, x := range a {
		m[x] = true
	}
	for _, x := range b {
		m[x] = true
	}
	out := make([]string, 0, len(m))
	for x := range m {
		out = append(out, x)
	}
	sort.Strings(out)
	return out
}
