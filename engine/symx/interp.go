// Copyright 2013 The Go Authors. All rights reserved.
// Use of this source code is governed by a BSD-style
// license that can be found in the LICENSE file.

// Package ssa/interp defines an interpreter for the SSA
// representation of Go programs.
//
// This interpreter is provided as an adjunct for testing the SSA
// construction algorithm.  Its purpose is to provide a minimal
// metacircular implementation of the dynamic semantics of each SSA
// instruction.  It is not, and will never be, a production-quality Go
// interpreter.
//
// The following is a partial list of Go features that are currently
// unsupported or incomplete in the interpreter.
//
// * Unsafe operations, including all uses of unsafe.Pointer, are
// impossible to support given the "boxed" value representation we
// have chosen.
//
// * The reflect package is only partially implemented.
//
// * The "testing" package is no longer supported because it
// depends on low-level details that change too often.
//
// * "sync/atomic" operations are not atomic due to the "boxed" value
// representation: it is not possible to read, modify and write an
// interface value atomically. As a consequence, Mutexes are currently
// broken.
//
// * recover is only partially implemented.  Also, the interpreter
// makes no attempt to distinguish target panics from interpreter
// crashes.
//
// * the sizes of the int, uint and uintptr types in the target
// program are assumed to be the same as those of the interpreter
// itself.
//
// * all values occupy space, even those of types defined by the spec
// to have zero size, e.g. struct{}.  This can cause asymptotic
// performance degradation.
//
// * os.Exit is implemented using panic, causing deferred functions to
// run.
package symx // import "golang.org/x/tools/go/ssa/interp"

import (
	"fmt"
	"go/token"
	"go/types"
	"log"
	"os"
	"reflect"
	"runtime"
	"slices"
	_ "unsafe"

	"golang.org/x/tools/go/ssa"
)

type continuation int

const (
	kNext continuation = iota
	kReturn
	kJump
)

// Mode is a bitmask of options affecting the interpreter.
type Mode uint

const (
	DisableRecover Mode = 1 << iota // Disable recover() in target programs; show interpreter crash instead.
	EnableTracing                   // Print a trace of all instructions as they are interpreted.
)

type methodSet map[string]*ssa.Function

// State shared between all interpreted goroutines.
type interpreter struct {
	osArgs             []value                // the value of os.Args
	prog               *ssa.Program           // the SSA program
	globals            map[*ssa.Global]*value // addresses of global variables (immutable)
	mode               Mode                   // interpreter options
	reflectPackage     *ssa.Package           // the fake reflect package
	errorMethods       methodSet              // the method set of reflect.error, which implements the error interface.
	rtypeMethods       methodSet              // the method set of rtype, which implements the reflect.Type interface.
	runtimeErrorString types.Type             // the runtime.errorString type
	runtimeErrorType   types.Type             // runtime.errorString as seen by recover(): implements runtime.Error
	sizes              types.Sizes            // the effective type-sizing function
	goroutines         int32                  // atomically updated
	ex                 *Explorer
	built              map[*ssa.Package]bool
	initAllow          map[string]bool
	fnNames            map[*ssa.Function]string
	mainPkg            *ssa.Package
	onceActive         map[*value]bool
	lazyDone           map[*ssa.Global]bool
	pools              map[*value][]value
	callStack          []*ssa.Function
	panicStack         []*ssa.Function
}

func (i *interpreter) takePanicStack() string {
	s := ""
	n := len(i.panicStack)
	for k := n - 1; k >= 0 && k >= n-12; k-- {
		s += "\n    in " + i.panicStack[k].String()
	}
	i.panicStack = nil
	return s
}

func (i *interpreter) fnName(fn *ssa.Function) string {
	if s, ok := i.fnNames[fn]; ok {
		return s
	}
	s := fn.String()
	i.fnNames[fn] = s
	return s
}

func (i *interpreter) initAllowed(fn *ssa.Function) bool {
	if fn.Pkg == nil || fn.Pkg.Pkg == nil {
		return false
	}
	return i.initAllow[fn.Pkg.Pkg.Path()]
}

type deferred struct {
	fn    value
	args  []value
	instr *ssa.Defer
	tail  *deferred
}

type frame struct {
	i                *interpreter
	caller           *frame
	fn               *ssa.Function
	block, prevBlock *ssa.BasicBlock
	env              map[ssa.Value]value // dynamic values of SSA variables
	locals           []value
	defers           *deferred
	result           value
	panicking        bool
	panic            interface{}
	phitemps         []value // temporaries for parallel phi assignment
}

func (fr *frame) get(key ssa.Value) value {
	switch key := key.(type) {
	case nil:
		// Hack; simplifies handling of optional attributes
		// such as ssa.Slice.{Low,High}.
		return nil
	case *ssa.Function, *ssa.Builtin:
		return key
	case *ssa.Const:
		return constValue(key)
	case *ssa.Global:
		if r, ok := fr.i.globals[key]; ok {
			if fr.i.ex != nil && key.Pkg != nil && key.Pkg.Pkg != nil && !fr.i.initAllow[key.Pkg.Pkg.Path()] {
				// a global of a package whose initialiser was skipped: compute it from the
				// straight-line slice of that initialiser, or report the read
				if !fr.i.lazyInitGlobal(key) {
					fr.i.ex.UninitGlobals[key.Pkg.Pkg.Path()+"."+key.Name()]++
				}
			}
			return r
		}
	}
	if r, ok := fr.env[key]; ok {
		return r
	}
	panic(fmt.Sprintf("get: no value for %T: %v", key, key.Name()))
}

// runDefer runs a deferred call d.
// It always returns normally, but may set or clear fr.panic.
func (fr *frame) runDefer(d *deferred) {
	if fr.i.mode&EnableTracing != 0 {
		fmt.Fprintf(os.Stderr, "%s: invoking deferred function call\n",
			fr.i.prog.Fset.Position(d.instr.Pos()))
	}
	var ok bool
	defer func() {
		if !ok {
			// Deferred call created a new state of panic.
			p := recover()
			if isEnginePanic(p) {
				panic(p)
			}
			fr.panicking = true
			fr.panic = p
		}
	}()
	call(fr.i, fr, d.instr.Pos(), d.fn, d.args)
	ok = true
}

// runDefers executes fr's deferred function calls in LIFO order.
//
// On entry, fr.panicking indicates a state of panic; if
// true, fr.panic contains the panic value.
//
// On completion, if a deferred call started a panic, or if no
// deferred call recovered from a previous state of panic, then
// runDefers itself panics after the last deferred call has run.
//
// If there was no initial state of panic, or it was recovered from,
// runDefers returns normally.
func (fr *frame) runDefers() {
	for d := fr.defers; d != nil; d = d.tail {
		fr.runDefer(d)
	}
	fr.defers = nil
	if fr.panicking {
		panic(fr.panic) // new panic, or still panicking
	}
}

// lookupMethod returns the method set for type typ, which may be one
// of the interpreter's fake types.
func lookupMethod(i *interpreter, typ types.Type, meth *types.Func) *ssa.Function {
	switch typ {
	case rtypeType:
		return i.rtypeMethods[meth.Id()]
	case errorType:
		return i.errorMethods[meth.Id()]
	}
	return i.prog.LookupMethod(typ, meth.Pkg(), meth.Name())
}

// visitInstr interprets a single ssa.Instruction within the activation
// record frame.  It returns a continuation value indicating where to
// read the next instruction from.
func visitInstr(fr *frame, instr ssa.Instruction) continuation {
	switch instr := instr.(type) {
	case *ssa.DebugRef:
		// no-op

	case *ssa.UnOp:
		x := fr.get(instr.X)
		if instr.Op == token.MUL && fr.i.ex != nil && fr.i.ex.StoreMon != nil {
			if p, ok := x.(*value); ok {
				fr.i.ex.StoreMon.onAccess(fr, p, "load")
			}
		}
		if _, ok := x.(symVal); ok {
			fr.env[instr] = fr.i.symUnop(instr.Op, x)
		} else {
			fr.env[instr] = unop(instr, x)
		}

	case *ssa.BinOp:
		fr.env[instr] = fr.i.binopSym(instr.Op, instr.X.Type(), fr.get(instr.X), fr.get(instr.Y))

	case *ssa.Call:
		fn, args := prepareCall(fr, &instr.Call)
		fr.env[instr] = call(fr.i, fr, instr.Pos(), fn, args)

	case *ssa.ChangeInterface:
		fr.env[instr] = fr.get(instr.X)

	case *ssa.ChangeType:
		fr.env[instr] = fr.get(instr.X) // (can't fail)

	case *ssa.Convert:
		fr.env[instr] = fr.i.convSym(instr.Type(), instr.X.Type(), fr.get(instr.X))

	case *ssa.SliceToArrayPointer:
		fr.env[instr] = sliceToArrayPointer(instr.Type(), instr.X.Type(), fr.get(instr.X))

	case *ssa.MakeInterface:
		fr.env[instr] = iface{t: instr.X.Type(), v: fr.get(instr.X)}

	case *ssa.Extract:
		fr.env[instr] = fr.get(instr.Tuple).(tuple)[instr.Index]

	case *ssa.Slice:
		fr.env[instr] = fr.i.sliceSym(fr.get(instr.X), fr.get(instr.Low), fr.get(instr.High), fr.get(instr.Max))

	case *ssa.Return:
		switch len(instr.Results) {
		case 0:
		case 1:
			fr.result = fr.get(instr.Results[0])
		default:
			var res []value
			for _, r := range instr.Results {
				res = append(res, fr.get(r))
			}
			fr.result = tuple(res)
		}
		fr.block = nil
		return kReturn

	case *ssa.RunDefers:
		fr.runDefers()

	case *ssa.Panic:
		panic(targetPanic{fr.get(instr.X)})

	case *ssa.Send:
		fr.get(instr.Chan).(chan value) <- fr.get(instr.X)

	case *ssa.Store:
		addr := fr.get(instr.Addr).(*value)
		if addr == nil {
			panic(runtimeErrorString("invalid memory address or nil pointer dereference"))
		}
		if fr.i.ex != nil && fr.i.ex.StoreMon != nil {
			fr.i.ex.StoreMon.onStore(fr, instr, addr)
		}
		if fr.i.ex != nil && fr.i.ex.Guard != nil {
			fr.i.ex.Guard.onStore(fr, addr)
		}
		store(mustDeref(instr.Addr.Type()), addr, fr.get(instr.Val))

	case *ssa.If:
		succ := 1
		switch c := fr.get(instr.Cond).(type) {
		case bool:
			if c {
				succ = 0
			}
		case symVal:
			if fr.i.ex.Branch(c.t) {
				succ = 0
			}
		default:
			panic(engineError(fmt.Sprintf("If on %T", c)))
		}
		fr.prevBlock, fr.block = fr.block, fr.block.Succs[succ]
		return kJump

	case *ssa.Jump:
		fr.prevBlock, fr.block = fr.block, fr.block.Succs[0]
		return kJump

	case *ssa.Defer:
		fn, args := prepareCall(fr, &instr.Call)
		defers := &fr.defers
		if into := fr.get(instr.DeferStack); into != nil {
			defers = into.(**deferred)
		}
		*defers = &deferred{
			fn:    fn,
			args:  args,
			instr: instr,
			tail:  *defers,
		}

	case *ssa.Go:
		panic(engineError("go statement in encoded code at " + fr.i.prog.Fset.Position(instr.Pos()).String()))

	case *ssa.MakeChan:
		fr.env[instr] = make(chan value, fr.i.concInt(fr.get(instr.Size)))

	case *ssa.Alloc:
		var addr *value
		if instr.Heap {
			// new
			addr = new(value)
			fr.env[instr] = addr
		} else {
			// local
			addr = fr.env[instr].(*value)
		}
		*addr = zero(mustDeref(instr.Type()))

	case *ssa.MakeSlice:
		capv := fr.i.concInt(fr.get(instr.Cap))
		lenv := fr.i.concInt(fr.get(instr.Len))
		if lenv < 0 || capv < lenv || capv > 1<<24 {
			panic(runtimeErrorString("makeslice: len out of range"))
		}
		slice := make([]value, capv)
		tElt := instr.Type().Underlying().(*types.Slice).Elem()
		for i := range slice {
			slice[i] = zero(tElt)
		}
		fr.env[instr] = slice[:lenv]
		if fr.i.ex != nil && fr.i.ex.StoreMon != nil {
			fr.i.ex.StoreMon.onAllocSlice(slice)
		}

	case *ssa.MakeMap:
		var reserve int64
		if instr.Reserve != nil {
			reserve = fr.i.concInt(fr.get(instr.Reserve))
		}
		if !fitsInt(reserve, fr.i.sizes) {
			panic(fmt.Sprintf("ssa.MakeMap.Reserve value %d does not fit in int", reserve))
		}
		fr.env[instr] = makeMap(instr.Type().Underlying().(*types.Map).Key(), reserve)

	case *ssa.Range:
		fr.env[instr] = fr.i.rangeIter(fr.get(instr.X), instr.X.Type())

	case *ssa.Next:
		fr.env[instr] = fr.get(instr.Iter).(iter).next()

	case *ssa.FieldAddr:
		px := fr.get(instr.X).(*value)
		if px == nil {
			panic(runtimeErrorString("invalid memory address or nil pointer dereference"))
		}
		fr.env[instr] = &(*px).(structure)[instr.Field]

	case *ssa.Field:
		fr.env[instr] = fr.get(instr.X).(structure)[instr.Field]

	case *ssa.IndexAddr:
		x := fr.get(instr.X)
		idx := fr.get(instr.Index)
		switch x := x.(type) {
		case []value:
			k := fr.i.indexSym(idx, len(x))
			fr.env[instr] = &x[k]
		case *value: // *array
			if x == nil {
				panic(runtimeErrorString("invalid memory address or nil pointer dereference"))
			}
			a := (*x).(array)
			k := fr.i.indexSym(idx, len(a))
			fr.env[instr] = &a[k]
		default:
			panic(fmt.Sprintf("unexpected x type in IndexAddr: %T", x))
		}

	case *ssa.Index:
		x := fr.get(instr.X)
		idx := fr.get(instr.Index)

		switch x := x.(type) {
		case array:
			fr.env[instr] = fr.i.indexValue([]value(x), idx)
		case string:
			if _, ok := idx.(symVal); ok {
				fr.env[instr] = fr.i.indexValue(strBytes(x), idx)
			} else {
				k := asInt64(idx)
				if k < 0 || k >= int64(len(x)) {
					panic(runtimeErrorString(fmt.Sprintf("index out of range [%d] with length %d", k, len(x))))
				}
				fr.env[instr] = x[k]
			}
		case symString:
			fr.env[instr] = fr.i.indexValue([]value(x), idx)
		default:
			panic(fmt.Sprintf("unexpected x type in Index: %T", x))
		}

	case *ssa.Lookup:
		fr.env[instr] = fr.i.lookup(instr, fr.get(instr.X), fr.get(instr.Index))

	case *ssa.MapUpdate:
		m := fr.get(instr.Map)
		key := fr.get(instr.Key)
		v := fr.get(instr.Value)
		if fr.i.ex != nil && fr.i.ex.StoreMon != nil {
			fr.i.ex.StoreMon.onMapUpdate(fr, instr, m)
		}
		if fr.i.ex != nil && fr.i.ex.Guard != nil {
			fr.i.ex.Guard.onMapUpdate(fr, m)
		}
		switch m := m.(type) {
		case *omap:
			m.insert(fr.i, key, v)
		case *hashmap:
			m.insert(key.(hashable), v)
		default:
			panic(fmt.Sprintf("illegal map type: %T", m))
		}

	case *ssa.TypeAssert:
		fr.env[instr] = typeAssert(fr.i, instr, fr.get(instr.X).(iface))

	case *ssa.MakeClosure:
		var bindings []value
		for _, binding := range instr.Bindings {
			bindings = append(bindings, fr.get(binding))
		}
		fr.env[instr] = &closure{instr.Fn.(*ssa.Function), bindings}

	case *ssa.Phi:
		log.Fatal("unreachable") // phis are processed at block entry

	case *ssa.Select:
		if r, ok := fr.i.selectSym(fr, instr); ok {
			fr.env[instr] = r
			break
		}
		var cases []reflect.SelectCase
		if !instr.Blocking {
			cases = append(cases, reflect.SelectCase{
				Dir: reflect.SelectDefault,
			})
		}
		for _, state := range instr.States {
			var dir reflect.SelectDir
			if state.Dir == types.RecvOnly {
				dir = reflect.SelectRecv
			} else {
				dir = reflect.SelectSend
			}
			var send reflect.Value
			if state.Send != nil {
				send = reflect.ValueOf(fr.get(state.Send))
			}
			cases = append(cases, reflect.SelectCase{
				Dir:  dir,
				Chan: reflect.ValueOf(fr.get(state.Chan)),
				Send: send,
			})
		}
		chosen, recv, recvOk := reflect.Select(cases)
		if !instr.Blocking {
			chosen-- // default case should have index -1.
		}
		r := tuple{chosen, recvOk}
		for i, st := range instr.States {
			if st.Dir == types.RecvOnly {
				var v value
				if i == chosen && recvOk {
					// No need to copy since send makes an unaliased copy.
					v = recv.Interface().(value)
				} else {
					v = zero(st.Chan.Type().Underlying().(*types.Chan).Elem())
				}
				r = append(r, v)
			}
		}
		fr.env[instr] = r

	default:
		panic(fmt.Sprintf("unexpected instruction: %T", instr))
	}

	// if val, ok := instr.(ssa.Value); ok {
	// 	fmt.Println(toString(fr.env[val])) // debugging
	// }

	return kNext
}

// prepareCall determines the function value and argument values for a
// function call in a Call, Go or Defer instruction, performing
// interface method lookup if needed.
func prepareCall(fr *frame, call *ssa.CallCommon) (fn value, args []value) {
	v := fr.get(call.Value)
	if call.Method == nil {
		// Function call.
		fn = v
	} else {
		// Interface method invocation.
		recv := v.(iface)
		if recv.t == nil {
			panic("method invoked on nil interface")
		}
		if f := lookupMethod(fr.i, recv.t, call.Method); f == nil {
			// Unreachable in well-typed programs.
			panic(fmt.Sprintf("method set for dynamic type %v does not contain %s", recv.t, call.Method))
		} else {
			fn = f
		}
		args = append(args, recv.v)
	}
	for _, arg := range call.Args {
		args = append(args, fr.get(arg))
	}
	return
}

// call interprets a call to a function (function, builtin or closure)
// fn with arguments args, returning its result.
// callpos is the position of the callsite.
func call(i *interpreter, caller *frame, callpos token.Pos, fn value, args []value) value {
	switch fn := fn.(type) {
	case *ssa.Function:
		if fn == nil {
			panic("call of nil function") // nil of func type
		}
		return callSSA(i, caller, callpos, fn, args, nil)
	case *closure:
		return callSSA(i, caller, callpos, fn.Fn, args, fn.Env)
	case *ssa.Builtin:
		return callBuiltin(caller, callpos, fn, args)
	}
	panic(fmt.Sprintf("cannot call %T", fn))
}

func loc(fset *token.FileSet, pos token.Pos) string {
	if pos == token.NoPos {
		return ""
	}
	return " at " + fset.Position(pos).String()
}

// callSSA interprets a call to function fn with arguments args,
// and lexical environment env, returning its result.
// callpos is the position of the callsite.
func callSSA(i *interpreter, caller *frame, callpos token.Pos, fn *ssa.Function, args []value, env []value) value {
	if i.mode&EnableTracing != 0 {
		fset := fn.Prog.Fset
		// TODO(adonovan): fix: loc() lies for external functions.
		fmt.Fprintf(os.Stderr, "Entering %s%s.\n", fn, loc(fset, fn.Pos()))
		suffix := ""
		if caller != nil {
			suffix = ", resuming " + caller.fn.String() + loc(fset, callpos)
		}
		defer fmt.Fprintf(os.Stderr, "Leaving %s%s.\n", fn, suffix)
	}
	fr := &frame{
		i:      i,
		caller: caller, // for panic/recover
		fn:     fn,
	}
	if fn.Parent() == nil {
		name := i.fnName(fn)
		if ext := externals[name]; ext != nil {
			if i.mode&EnableTracing != 0 {
				fmt.Fprintln(os.Stderr, "\t(external)")
			}
			if i.ex != nil {
				i.ex.FnsTouched["ext:"+name]++
			}
			return ext(fr, args)
		}
		if fn.Synthetic == "package initializer" && !i.initAllowed(fn) {
			return nil
		}
		if fn.Blocks == nil {
			if fn.Pkg != nil && fn.Pkg.Pkg != nil && !i.built[fn.Pkg] {
				i.built[fn.Pkg] = true
				fn.Pkg.Build()
			}
			if fn.Blocks == nil {
				panic(engineError("no code for function: " + name))
			}
		}
	}
	i.callStack = append(i.callStack, fn)
	defer func() {
		if p := recover(); p != nil {
			if i.panicStack == nil {
				i.panicStack = append([]*ssa.Function{}, i.callStack...)
			}
			i.callStack = i.callStack[:len(i.callStack)-1]
			panic(p)
		}
		i.callStack = i.callStack[:len(i.callStack)-1]
	}()
	if i.ex != nil {
		i.ex.FnsTouched[i.fnName(fn)]++
		i.ex.depth++
		if i.ex.depth > i.ex.MaxDepth {
			panic(pathEnd{"depth"})
		}
		defer func() { i.ex.depth-- }()
	}

	// generic function body?
	if fn.TypeParams().Len() > 0 && len(fn.TypeArgs()) == 0 {
		panic("interp requires ssa.BuilderMode to include InstantiateGenerics to execute generics")
	}

	fr.env = make(map[ssa.Value]value, envSizeHint(fn))
	fr.block = fn.Blocks[0]
	fr.locals = make([]value, len(fn.Locals))
	for i, l := range fn.Locals {
		fr.locals[i] = zero(mustDeref(l.Type()))
		fr.env[l] = &fr.locals[i]
	}
	for i, p := range fn.Params {
		fr.env[p] = args[i]
	}
	for i, fv := range fn.FreeVars {
		fr.env[fv] = env[i]
	}
	for fr.block != nil {
		runFrame(fr)
	}
	// Destroy the locals to avoid accidental use after return.
	for i := range fn.Locals {
		fr.locals[i] = bad{}
	}
	return fr.result
}

// runFrame executes SSA instructions starting at fr.block and
// continuing until a return, a panic, or a recovered panic.
//
// After a panic, runFrame panics.
//
// After a normal return, fr.result contains the result of the call
// and fr.block is nil.
//
// A recovered panic in a function without named return parameters
// (NRPs) becomes a normal return of the zero value of the function's
// result type.
//
// After a recovered panic in a function with NRPs, fr.result is
// undefined and fr.block contains the block at which to resume
// control.
func runFrame(fr *frame) {
	defer func() {
		if fr.block == nil {
			return // normal return
		}
		if fr.i.mode&DisableRecover != 0 {
			return // let interpreter crash
		}
		p := recover()
		if isEnginePanic(p) {
			panic(p)
		}
		if _, ok := p.(*runtime.TypeAssertionError); ok {
			panic(engineError(fmt.Sprintf("host type assertion failed in %s: %v", fr.fn, p)))
		}
		fr.panicking = true
		fr.panic = p
		if fr.i.mode&EnableTracing != 0 {
			fmt.Fprintf(os.Stderr, "Panicking: %T %v.\n", fr.panic, fr.panic)
		}
		fr.runDefers()
		fr.block = fr.fn.Recover
	}()

	for {
		if fr.i.mode&EnableTracing != 0 {
			fmt.Fprintf(os.Stderr, ".%s:\n", fr.block)
		}

		nonPhis := executePhis(fr)
		for _, instr := range nonPhis {
			if fr.i.mode&EnableTracing != 0 {
				if v, ok := instr.(ssa.Value); ok {
					fmt.Fprintln(os.Stderr, "\t", v.Name(), "=", instr)
				} else {
					fmt.Fprintln(os.Stderr, "\t", instr)
				}
			}
			if fr.i.ex != nil {
				fr.i.ex.step()
			}
			if visitInstr(fr, instr) == kReturn {
				return
			}
			// Inv: kNext (continue) or kJump (last instr)
		}
	}
}

// executePhis executes the phi-nodes at the start of the current
// block and returns the non-phi instructions.
func executePhis(fr *frame) []ssa.Instruction {
	firstNonPhi := -1
	for i, instr := range fr.block.Instrs {
		if _, ok := instr.(*ssa.Phi); !ok {
			firstNonPhi = i
			break
		}
	}
	// Inv: 0 <= firstNonPhi; every block contains a non-phi.

	nonPhis := fr.block.Instrs[firstNonPhi:]
	if firstNonPhi > 0 {
		phis := fr.block.Instrs[:firstNonPhi]
		// Execute parallel assignment of phis.
		//
		// See "the swap problem" in Briggs et al's "Practical Improvements
		// to the Construction and Destruction of SSA Form" for discussion.
		predIndex := slices.Index(fr.block.Preds, fr.prevBlock)
		fr.phitemps = fr.phitemps[:0]
		for _, phi := range phis {
			phi := phi.(*ssa.Phi)
			if fr.i.mode&EnableTracing != 0 {
				fmt.Fprintln(os.Stderr, "\t", phi.Name(), "=", phi)
			}
			fr.phitemps = append(fr.phitemps, fr.get(phi.Edges[predIndex]))
		}
		for i, phi := range phis {
			fr.env[phi.(*ssa.Phi)] = fr.phitemps[i]
		}
	}
	return nonPhis
}

// doRecover implements the recover() built-in.
func doRecover(caller *frame) value {
	// recover() must be exactly one level beneath the deferred
	// function (two levels beneath the panicking function) to
	// have any effect.  Thus we ignore both "defer recover()" and
	// "defer f() -> g() -> recover()".
	if caller.i.mode&DisableRecover == 0 &&
		caller != nil && !caller.panicking &&
		caller.caller != nil && caller.caller.panicking {
		caller.caller.panicking = false
		p := caller.caller.panic
		caller.caller.panic = nil

		// TODO(adonovan): support runtime.Goexit.
		switch p := p.(type) {
		case targetPanic:
			// The target program explicitly called panic().
			return p.v
		case runtimeErrorString:
			return iface{caller.i.runtimeErrorType, p.Error()}
		case runtime.Error:
			// The interpreter encountered a runtime error.
			return iface{caller.i.runtimeErrorType, p.Error()}
		case string:
			// The interpreter explicitly called panic().
			return iface{caller.i.runtimeErrorString, p}
		default:
			panic(fmt.Sprintf("unexpected panic type %T in target call to recover()", p))
		}
	}
	return iface{}
}

// Interpret interprets the Go program whose main package is mainpkg.
// mode specifies various interpreter options.  filename and args are
// the initial values of os.Args for the target program.  sizes is the
// effective type-sizing function for this program.
//
// Interpret returns the exit code of the program: 2 for panic (like
// gc does), or the argument to os.Exit for normal termination.
//
// The SSA program must include the "runtime" package.
//
// Type parameterized functions must have been built with
// InstantiateGenerics in the ssa.BuilderMode to be interpreted.
func Interpret(mainpkg *ssa.Package, mode Mode, sizes types.Sizes, filename string, args []string) (exitCode int) {
	i := &interpreter{
		prog:       mainpkg.Prog,
		globals:    make(map[*ssa.Global]*value),
		mode:       mode,
		sizes:      sizes,
		goroutines: 1,
	}
	runtimePkg := i.prog.ImportedPackage("runtime")
	if runtimePkg == nil {
		panic("ssa.Program doesn't include runtime package")
	}
	i.runtimeErrorString = runtimePkg.Type("errorString").Object().Type()

	initReflect(i)

	i.osArgs = append(i.osArgs, filename)
	for _, arg := range args {
		i.osArgs = append(i.osArgs, arg)
	}

	for _, pkg := range i.prog.AllPackages() {
		// Initialize global storage.
		for _, m := range pkg.Members {
			switch v := m.(type) {
			case *ssa.Global:
				cell := zero(mustDeref(v.Type()))
				i.globals[v] = &cell
			}
		}
	}

	// Top-level error handler.
	exitCode = 2
	defer func() {
		if exitCode != 2 || i.mode&DisableRecover != 0 {
			return
		}
		switch p := recover().(type) {
		case exitPanic:
			exitCode = int(p)
			return
		case targetPanic:
			fmt.Fprintln(os.Stderr, "panic:", toString(p.v))
		case runtime.Error:
			fmt.Fprintln(os.Stderr, "panic:", p.Error())
		case string:
			fmt.Fprintln(os.Stderr, "panic:", p)
		default:
			fmt.Fprintf(os.Stderr, "panic: unexpected type: %T: %v\n", p, p)
		}

		// TODO(adonovan): dump panicking interpreter goroutine?
		// buf := make([]byte, 0x10000)
		// runtime.Stack(buf, false)
		// fmt.Fprintln(os.Stderr, string(buf))
		// (Or dump panicking target goroutine?)
	}()

	// Run!
	call(i, nil, token.NoPos, mainpkg.Func("init"), nil)
	if mainFn := mainpkg.Func("main"); mainFn != nil {
		call(i, nil, token.NoPos, mainFn, nil)
		exitCode = 0
	} else {
		fmt.Fprintln(os.Stderr, "No main function.")
		exitCode = 1
	}
	return
}

var envHints = map[*ssa.Function]int{}

// envSizeHint: number of SSA values a frame of fn may define (avoids map growth).
func envSizeHint(fn *ssa.Function) int {
	if n, ok := envHints[fn]; ok {
		return n
	}
	n := len(fn.Params) + len(fn.FreeVars) + len(fn.Locals)
	for _, b := range fn.Blocks {
		n += len(b.Instrs)
	}
	if n > 256 {
		n = 256
	}
	envHints[fn] = n
	return n
}
