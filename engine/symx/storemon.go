package symx

// Store monitor (C05): after vx.EpochMark(), every store executed by the
// interpreter is checked against the set of memory reachable at the time of
// the mark ("shared" memory). A store into shared memory outside
// sync.Once.Do / a held mutex / sync/atomic is recorded as a violation.

import (
	"fmt"
	"sort"
	"strings"
	"unsafe"

	"golang.org/x/tools/go/ssa"
)

type region struct{ lo, hi uintptr }

type storeMonitor struct {
	released     []region // objects handed back to a sync.Pool and not yet handed out again
	regions      []region
	maps         map[interface{}]bool
	marked       bool
	syncDepth    int
	atomicStores int
	Stores       int
	SharedStores int // stores into shared memory that were synchronised
	seen         map[uintptr]bool
}

func newStoreMonitor() *storeMonitor {
	return &storeMonitor{maps: map[interface{}]bool{}}
}

const cellSize = unsafe.Sizeof(value(nil))

func (m *storeMonitor) addCell(p *value) bool {
	a := uintptr(unsafe.Pointer(p))
	if m.seen[a] {
		return false
	}
	m.seen[a] = true
	m.regions = append(m.regions, region{a, a + cellSize})
	return true
}

func (m *storeMonitor) addBacking(s []value) bool {
	s = s[:cap(s)]
	if len(s) == 0 {
		return false
	}
	a := uintptr(unsafe.Pointer(&s[0]))
	key := a ^ (uintptr(len(s)) << 48)
	if m.seen[key] {
		return false
	}
	m.seen[key] = true
	m.regions = append(m.regions, region{a, a + uintptr(len(s))*cellSize})
	return true
}

func (m *storeMonitor) walk(v value) {
	switch v := v.(type) {
	case *value:
		if v == nil {
			return
		}
		if m.addCell(v) {
			m.walk(*v)
		}
	case structure:
		if m.addBacking([]value(v)) {
			for _, f := range v {
				m.walk(f)
			}
		}
	case array:
		if m.addBacking([]value(v)) {
			for _, f := range v {
				m.walk(f)
			}
		}
	case []value:
		if v == nil {
			return
		}
		if m.addBacking(v) {
			for _, f := range v[:cap(v)] {
				m.walk(f)
			}
		}
	case iface:
		m.walk(v.v)
	case *closure:
		if v == nil {
			return
		}
		a := uintptr(unsafe.Pointer(v))
		if m.seen[a] {
			return
		}
		m.seen[a] = true
		for _, e := range v.Env {
			m.walk(e)
		}
	case *omap:
		if v == nil || m.maps[v] {
			return
		}
		m.maps[v] = true
		for _, e := range v.entries {
			m.walk(e.k)
			m.walk(e.v)
		}
	case *hashmap:
		if v == nil || m.maps[v] {
			return
		}
		m.maps[v] = true
		for _, e := range v.live() {
			m.walk(e.key)
			m.walk(e.value)
		}
	case tuple:
		for _, f := range v {
			m.walk(f)
		}
	}
}

// mark snapshots everything reachable from package globals (and through
// them the application under test) as shared memory.
func (m *storeMonitor) mark(i *interpreter) {
	m.seen = map[uintptr]bool{}
	m.regions = m.regions[:0]
	m.maps = map[interface{}]bool{}
	for _, cell := range i.globals {
		m.walk(cell)
	}
	sort.Slice(m.regions, func(a, b int) bool { return m.regions[a].lo < m.regions[b].lo })
	m.seen = nil
	m.marked = true
}

func (m *storeMonitor) shared(p *value) bool {
	a := uintptr(unsafe.Pointer(p))
	k := sort.Search(len(m.regions), func(k int) bool { return m.regions[k].lo > a })
	// regions may nest/overlap only trivially; scan a few to the left
	for j := k - 1; j >= 0 && j >= k-4; j-- {
		if m.regions[j].lo <= a && a < m.regions[j].hi {
			return true
		}
	}
	return false
}

func (m *storeMonitor) report(fr *frame, pos string, what string) {
	ex := fr.i.ex
	mod, r := ex.model()
	v := Violation{Msg: "unsynchronised store into shared memory: " + what, Pos: pos, Kind: "store"}
	if r == Sat {
		v.Replay = ex.replayVector(mod)
		v.Obs = ex.renderObs(mod)
	}
	ex.viol = append(ex.viol, v)
}

func (m *storeMonitor) onStore(fr *frame, instr *ssa.Store, addr *value) {
	m.onAccess(fr, addr, "store")
	if !m.marked {
		return
	}
	m.Stores++
	if !m.shared(addr) {
		return
	}
	if m.syncDepth > 0 {
		m.SharedStores++
		return
	}
	if instr == nil {
		m.report(fr, "", "reflect.Value.Set in "+fr.callerPos())
		return
	}
	m.report(fr, fr.i.prog.Fset.Position(instr.Pos()).String(), fmt.Sprintf("%s in %s", instr, fr.fn))
}

func (m *storeMonitor) onMapUpdate(fr *frame, instr ssa.Instruction, mp value) {
	if !m.marked {
		return
	}
	m.Stores++
	var key interface{}
	switch x := mp.(type) {
	case *omap:
		key = x
	case *hashmap:
		key = x
	}
	if key == nil || !m.maps[key] {
		return
	}
	if m.syncDepth > 0 {
		m.SharedStores++
		return
	}
	pos := ""
	if instr != nil {
		pos = fr.i.prog.Fset.Position(instr.Pos()).String()
	}
	m.report(fr, pos, "map update in "+fr.fn.String())
}

func (m *storeMonitor) onCopy(fr *frame, dst []value) {
	if !m.marked || len(dst) == 0 {
		return
	}
	m.Stores++
	if m.shared(&dst[0]) && m.syncDepth == 0 {
		m.report(fr, "", "copy into shared slice in "+fr.fn.String())
	}
}

func (m *storeMonitor) onAppendInPlace(fr *frame, dst []value) {
	if !m.marked {
		return
	}
	m.Stores++
	full := dst[:cap(dst)]
	if m.shared(&full[len(dst)]) && m.syncDepth == 0 {
		m.report(fr, "", "append into spare capacity of a shared slice in "+fr.fn.String())
	}
}

func (m *storeMonitor) onAllocSlice(s []value) {}

// ---- pool discipline: an object must not be touched after it was Put -------

func (m *storeMonitor) regionsOf(v value) []region {
	var out []region
	if p, ok := v.(*value); ok && p != nil {
		a := uintptr(unsafe.Pointer(p))
		out = append(out, region{a, a + cellSize})
		switch c := (*p).(type) {
		case structure:
			if len(c) > 0 {
				b := uintptr(unsafe.Pointer(&c[0]))
				out = append(out, region{b, b + uintptr(len(c))*cellSize})
			}
		}
	}
	if it, ok := v.(iface); ok {
		return m.regionsOf(it.v)
	}
	return out
}

func (m *storeMonitor) onPoolPut(v value) {
	m.released = append(m.released, m.regionsOf(v)...)
}

func (m *storeMonitor) onPoolGet(v value) {
	rs := m.regionsOf(v)
	var keep []region
	for _, r := range m.released {
		drop := false
		for _, x := range rs {
			if x == r {
				drop = true
			}
		}
		if !drop {
			keep = append(keep, r)
		}
	}
	m.released = keep
}

// onAccess checks a load or store through addr against released objects.
func (m *storeMonitor) onAccess(fr *frame, addr *value, what string) {
	if len(m.released) == 0 || addr == nil {
		return
	}
	a := uintptr(unsafe.Pointer(addr))
	for _, r := range m.released {
		if r.lo <= a && a < r.hi {
			m.report2(fr, "access to an object after it was handed back to a sync.Pool ("+what+" in "+fr.fn.String()+")")
			return
		}
	}
}

func (m *storeMonitor) report2(fr *frame, msg string) {
	ex := fr.i.ex
	mod, r := ex.model()
	v := Violation{Msg: msg, Kind: "store"}
	if r == Sat {
		v.Replay = ex.replayVector(mod)
		v.Obs = ex.renderObs(mod)
	}
	ex.viol = append(ex.viol, v)
}

// ---- set-up guard ------------------------------------------------------------
//
// A job's set-up function runs once and its body once per path, on the same
// heap. That is sound only while the body leaves what set-up built alone.
// After set-up the guard records the memory reachable from the globals of the
// module under test and of the harness; a store into it during a body (other
// than inside sync.Once.Do: request-independent lazy initialisation) aborts the
// job with a "replay divergence", upon which it is started over with set-up
// repeated on every path.
type setupGuard struct {
	regions   []region
	maps      map[interface{}]bool
	onceDepth int
	Stores    int
}

func newSetupGuard(i *interpreter, module string) *setupGuard {
	m := newStoreMonitor()
	m.seen = map[uintptr]bool{}
	for g, cell := range i.globals {
		if g.Pkg == nil || g.Pkg.Pkg == nil || !strings.HasPrefix(g.Pkg.Pkg.Path(), module) {
			continue
		}
		file := i.prog.Fset.Position(g.Pos()).Filename
		if strings.Contains(file, "zz_verif") || strings.HasSuffix(g.Pkg.Pkg.Path(), "/internal/vx") {
			// a harness global: the variable itself is the harness's to reset, what it points to is guarded
			if cell != nil {
				m.walk(*cell)
			}
			continue
		}
		m.walk(cell)
	}
	sort.Slice(m.regions, func(a, b int) bool { return m.regions[a].lo < m.regions[b].lo })
	return &setupGuard{regions: m.regions, maps: m.maps}
}

func (g *setupGuard) guarded(p *value) bool {
	a := uintptr(unsafe.Pointer(p))
	k := sort.Search(len(g.regions), func(k int) bool { return g.regions[k].lo > a })
	for j := k - 1; j >= 0 && j >= k-4; j-- {
		if g.regions[j].lo <= a && a < g.regions[j].hi {
			return true
		}
	}
	return false
}

func (g *setupGuard) hit(fr *frame, what string) {
	if g.onceDepth > 0 {
		return
	}
	panic(engineError("replay divergence: the body wrote to memory built by set-up (" + what + " in " + fr.fn.String() + ")"))
}

func (g *setupGuard) onStore(fr *frame, addr *value) {
	g.Stores++
	if g.guarded(addr) {
		g.hit(fr, "store")
	}
}

func (g *setupGuard) onMapUpdate(fr *frame, mp value) {
	g.Stores++
	var key interface{}
	switch x := mp.(type) {
	case *omap:
		key = x
	case *hashmap:
		key = x
	}
	if key != nil && g.maps[key] {
		g.hit(fr, "map update")
	}
}

func (g *setupGuard) onSlice(fr *frame, dst []value, at int, what string) {
	g.Stores++
	full := dst[:cap(dst)]
	if at < len(full) && g.guarded(&full[at]) {
		g.hit(fr, what)
	}
}
