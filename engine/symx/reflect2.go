package symx

// Additions to the reflect shim needed by inject / return handlers.
// reflect.Type is a go/types.Type of the loaded program; reflect.Value wraps
// an interpreter value plus its static type. Trusted (validated natively by
// witness replay on every run that uses it).

import (
	"fmt"
	"go/token"
	"go/types"

	"golang.org/x/tools/go/ssa"
)

func init() {
	for k, v := range map[string]externalFn{
		"(reflect.Value).Call":         extReflectCall,
		"(reflect.Value).IsZero":       extReflectIsZero,
		"(reflect.Value).Bytes":        extReflectBytes,
		"(reflect.Value).CanSet":       extReflectCanSet,
		"(reflect.Value).Set":          extReflectSet,
		"(reflect.Value).String":       extReflectString,
		"(reflect.Value).Elem":         extReflectElem2,
		"(reflect.Value).Field":        extReflectField2,
		"(reflect.Value).IsValid":      extReflectIsValid2,
		"(reflect.Value).Interface":    extReflectInterface2,
		"(reflect.Value).Kind":         extReflectKind2,
		"(reflect.Value).Int":          extReflectInt2,
		"(reflect.rtype).Implements":   extRtypeImplements,
		"(reflect.rtype).AssignableTo": extRtypeAssignableTo,
		"(reflect.rtype).Name":         extRtypeName,
		"(reflect.rtype).PkgPath":      extRtypePkgPath,
		"(reflect.StructTag).Lookup":   nil,
	} {
		if v == nil {
			continue
		}
		externals[k] = v
	}
}

func registerRtypeMethods(i *interpreter) {
	for _, name := range []string{"Implements", "AssignableTo", "Name", "PkgPath"} {
		i.rtypeMethods[name] = newMethod(i.reflectPackage, rtypeType, name)
	}
}

func extReflectCall(fr *frame, args []value) value {
	fnv := rV2V(args[0])
	ft := rV2T(args[0]).t
	sig, ok := ft.Underlying().(*types.Signature)
	if !ok {
		panic(targetPanic{iface{fr.i.runtimeErrorString, "reflect: call of non-function"}})
	}
	var in []value
	if args[1] != nil {
		for k, a := range args[1].([]value) {
			v := rV2V(a)
			at := rV2T(a).t
			// a parameter of interface type receives an interface value
			if k < sig.Params().Len() {
				pt := sig.Params().At(k).Type()
				if _, isIface := pt.Underlying().(*types.Interface); isIface {
					if _, already := v.(iface); !already {
						v = iface{t: at, v: v}
					}
				}
			}
			in = append(in, v)
		}
	}
	if len(in) != sig.Params().Len() {
		panic(targetPanic{iface{fr.i.runtimeErrorString, "reflect: Call with too few input arguments"}})
	}
	res := call(fr.i, fr, token.NoPos, fnv, in)
	out := []value{}
	switch sig.Results().Len() {
	case 0:
	case 1:
		out = append(out, wrapResult(sig.Results().At(0).Type(), res))
	default:
		for k, r := range res.(tuple) {
			out = append(out, wrapResult(sig.Results().At(k).Type(), r))
		}
	}
	return out
}

// wrapResult boxes a call result as reflect.Value of its static type.
func wrapResult(t types.Type, v value) value {
	return makeReflectValue(t, v)
}

func extReflectIsZero(fr *frame, args []value) value {
	v := rV2V(args[0])
	t := rV2T(args[0]).t
	if v == nil {
		panic(targetPanic{iface{fr.i.runtimeErrorString, "reflect: call of reflect.Value.IsZero on zero Value"}})
	}
	return boolVal(fr.i.isZeroTerm(t, v))
}

func (i *interpreter) isZeroTerm(t types.Type, v value) *Term {
	switch v := v.(type) {
	case symVal:
		if v.k == types.Bool {
			return tNot(v.t)
		}
		return tEq(v.t, tConst(v.t.W, 0))
	case symString:
		return tBool(len(v) == 0)
	case string:
		return tBool(v == "")
	case []value:
		return tBool(v == nil)
	case *value:
		return tBool(v == nil)
	case iface:
		return tBool(v.t == nil)
	case *omap:
		return tBool(v == nil)
	case *hashmap:
		return tBool(v == nil)
	case *ssa.Function:
		return tBool(v == nil)
	case *closure:
		return tBool(v == nil)
	case chan value:
		return tBool(v == nil)
	case structure:
		r := tBool(true)
		st, _ := t.Underlying().(*types.Struct)
		for k := range v {
			var ft types.Type
			if st != nil {
				ft = st.Field(k).Type()
			}
			r = tAnd(r, i.isZeroTerm(ft, v[k]))
		}
		return r
	case array:
		r := tBool(true)
		for k := range v {
			r = tAnd(r, i.isZeroTerm(nil, v[k]))
		}
		return r
	case bool:
		return tBool(!v)
	}
	if k, ok := kindOfValue(v); ok {
		_ = k
		return tBool(asInt64(v) == 0)
	}
	switch x := v.(type) {
	case float64:
		return tBool(x == 0)
	case float32:
		return tBool(x == 0)
	}
	panic(engineError(fmt.Sprintf("IsZero on %T", v)))
}

func extReflectBytes(fr *frame, args []value) value {
	switch v := rV2V(args[0]).(type) {
	case []value:
		return v
	}
	panic(targetPanic{iface{fr.i.runtimeErrorString, "reflect: call of reflect.Value.Bytes on non-byte-slice Value"}})
}

// String: for a string Kind the contents, otherwise "<T Value>" as reflect does.
func extReflectString(fr *frame, args []value) value {
	v := rV2V(args[0])
	t := rV2T(args[0]).t
	if isStringValue(v) {
		return v
	}
	if t == nil {
		return "<invalid Value>"
	}
	return "<" + types.TypeString(t, func(p *types.Package) string { return p.Name() }) + " Value>"
}

// reflect.Value of a settable location is represented as structure{rtype, v, addr}.
func makeSettable(t types.Type, addr *value) value {
	return structure{rtype{t}, *addr, addr}
}

func extReflectCanSet(fr *frame, args []value) value {
	s := args[0].(structure)
	return len(s) == 3 && s[2] != nil
}

func extReflectSet(fr *frame, args []value) value {
	s := args[0].(structure)
	if len(s) != 3 || s[2] == nil {
		panic(targetPanic{iface{fr.i.runtimeErrorString, "reflect: reflect.Value.Set using unaddressable value"}})
	}
	addr := s[2].(*value)
	nv := rV2V(args[1])
	t := rV2T(args[0]).t
	if _, isIface := t.Underlying().(*types.Interface); isIface {
		if _, already := nv.(iface); !already {
			nv = iface{t: rV2T(args[1]).t, v: nv}
		}
	}
	if fr.i.ex != nil && fr.i.ex.StoreMon != nil {
		fr.i.ex.StoreMon.onStore(fr, nil, addr)
	}
	if fr.i.ex != nil && fr.i.ex.Guard != nil {
		fr.i.ex.Guard.onStore(fr, addr)
	}
	*addr = nv
	return nil
}

func extReflectElem2(fr *frame, args []value) value {
	switch x := rV2V(args[0]).(type) {
	case iface:
		return makeReflectValue(x.t, x.v)
	case *value:
		et := rV2T(args[0]).t.Underlying().(*types.Pointer).Elem()
		if x == nil {
			return makeReflectValue(nil, nil)
		}
		return makeSettable(et, x)
	default:
		panic(targetPanic{iface{fr.i.runtimeErrorString, fmt.Sprintf("reflect: call of reflect.Value.Elem on %T Value", x)}})
	}
}

func extReflectField2(fr *frame, args []value) value {
	v := args[0].(structure)
	k := int(asInt64(args[1]))
	st := rV2T(v).t.Underlying().(*types.Struct)
	ft := st.Field(k).Type()
	if len(v) == 3 && v[2] != nil {
		// addressable struct: the field is settable iff exported
		base := v[2].(*value)
		faddr := &(*base).(structure)[k]
		if st.Field(k).Exported() {
			return makeSettable(ft, faddr)
		}
		return makeReflectValue(ft, *faddr)
	}
	return makeReflectValue(ft, rV2V(v).(structure)[k])
}

func extReflectIsValid2(fr *frame, args []value) value {
	s := args[0].(structure)
	return s[1] != nil
}

func extReflectInterface2(fr *frame, args []value) value {
	s := args[0].(structure)
	if s[1] == nil {
		panic(targetPanic{iface{fr.i.runtimeErrorString, "reflect: call of reflect.Value.Interface on zero Value"}})
	}
	t := rV2T(s).t
	if _, isIface := t.Underlying().(*types.Interface); isIface {
		if it, ok := s[1].(iface); ok {
			return it
		}
	}
	return iface{t, s[1]}
}

func extReflectKind2(fr *frame, args []value) value {
	s := args[0].(structure)
	if s[1] == nil || rV2T(s).t == nil {
		return uint(0) // reflect.Invalid
	}
	return uint(reflectKind(rV2T(s).t))
}

func extReflectInt2(fr *frame, args []value) value {
	switch x := rV2V(args[0]).(type) {
	case symVal:
		return fromTerm(tSext(x.t, 64), types.Int64)
	case int:
		return int64(x)
	case int8:
		return int64(x)
	case int16:
		return int64(x)
	case int32:
		return int64(x)
	case int64:
		return x
	default:
		panic(targetPanic{iface{fr.i.runtimeErrorString, fmt.Sprintf("reflect: call of reflect.Value.Int on %T Value", x)}})
	}
}

func extRtypeImplements(fr *frame, args []value) value {
	t := args[0].(rtype).t
	u := args[1].(iface).v.(rtype).t
	it, ok := u.Underlying().(*types.Interface)
	if !ok {
		panic(targetPanic{iface{fr.i.runtimeErrorString, "reflect: non-interface type passed to Type.Implements"}})
	}
	return types.Implements(t, it)
}

func extRtypeAssignableTo(fr *frame, args []value) value {
	t := args[0].(rtype).t
	u := args[1].(iface).v.(rtype).t
	return types.AssignableTo(t, u)
}

func extRtypeName(fr *frame, args []value) value {
	if n, ok := args[0].(rtype).t.(*types.Named); ok {
		return n.Obj().Name()
	}
	if b, ok := args[0].(rtype).t.(*types.Basic); ok {
		return b.Name()
	}
	return ""
}

func extRtypePkgPath(fr *frame, args []value) value {
	if n, ok := args[0].(rtype).t.(*types.Named); ok && n.Obj().Pkg() != nil {
		return n.Obj().Pkg().Path()
	}
	return ""
}
