package symx

// Byte-domain fast path: feasibility of conditions over 8-bit variables that
// are not entangled with other variables in the path condition is decided
// exactly by enumeration of the 256 values, without a solver query.
// (Counted separately in evidence as "byteset_decided".)

type bitset [4]uint64

func (b *bitset) has(v uint64) bool { return b[v>>6]&(1<<(v&63)) != 0 }
func (b *bitset) empty() bool       { return b[0]|b[1]|b[2]|b[3] == 0 }

var fullSet = bitset{^uint64(0), ^uint64(0), ^uint64(0), ^uint64(0)}

var termVarsMemo = map[int][]*Term{}

func termVars(t *Term) []*Term {
	if v, ok := termVarsMemo[t.id]; ok {
		return v
	}
	var out []*Term
	switch t.Op {
	case OpConst:
	case OpVar:
		out = []*Term{t}
	default:
		seen := map[int]bool{}
		for _, a := range t.Args {
			for _, v := range termVars(a) {
				if !seen[v.id] {
					seen[v.id] = true
					out = append(out, v)
				}
			}
		}
	}
	termVarsMemo[t.id] = out
	return out
}

type tri int8

const (
	triFalse tri = iota
	triTrue
	triUnknown
)

// trueSet returns the values of the single byte variable v in dom for which t
// evaluates to want.
func (e *Explorer) evalSet(t *Term, v *Term, want uint64) bitset {
	dom, ok := e.dom[v.Name]
	if !ok {
		dom = fullSet
	}
	var out bitset
	m := Model{}
	for x := uint64(0); x < 256; x++ {
		if !dom.has(x) {
			continue
		}
		m[v.Name] = x
		if t.Eval(m, map[int]uint64{}) == want {
			out[x>>6] |= 1 << (x & 63)
		}
	}
	return out
}

func disjointVars(a, b *Term) bool {
	va, vb := termVars(a), termVars(b)
	for _, x := range va {
		for _, y := range vb {
			if x == y {
				return false
			}
		}
	}
	return true
}

// satDom decides whether (t == pol) is satisfiable together with the path
// condition, when that follows from per-variable domains alone.
func (e *Explorer) satDom(t *Term, pol bool) tri {
	if t.IsConst() {
		if (t.Val == 1) == pol {
			return triTrue
		}
		return triFalse
	}
	vs := termVars(t)
	for _, v := range vs {
		if v.W != 8 || e.entangled[v.Name] {
			return triUnknown
		}
	}
	if len(vs) == 1 {
		want := uint64(0)
		if pol {
			want = 1
		}
		s := e.evalSet(t, vs[0], want)
		if s.empty() {
			return triFalse
		}
		return triTrue
	}
	switch t.Op {
	case OpNot:
		return e.satDom(t.Args[0], !pol)
	case OpAnd, OpOr:
		conj := (t.Op == OpAnd) == pol // behaves as a conjunction of (arg == pol)
		a, b := e.satDom(t.Args[0], pol), e.satDom(t.Args[1], pol)
		if conj {
			if a == triFalse || b == triFalse {
				return triFalse
			}
			if a == triTrue && b == triTrue && disjointVars(t.Args[0], t.Args[1]) {
				return triTrue
			}
			return triUnknown
		}
		if a == triTrue || b == triTrue {
			return triTrue
		}
		if a == triFalse && b == triFalse {
			return triFalse
		}
		return triUnknown
	}
	return triUnknown
}

// noteConstraint updates domains / entanglement for a new conjunct of the pc.
func (e *Explorer) noteConstraint(t *Term) {
	if t.Op == OpAnd {
		e.noteConstraint(t.Args[0])
		e.noteConstraint(t.Args[1])
		return
	}
	if t.Op == OpNot && t.Args[0].Op == OpOr {
		e.noteConstraint(tNot(t.Args[0].Args[0]))
		e.noteConstraint(tNot(t.Args[0].Args[1]))
		return
	}
	vs := termVars(t)
	if len(vs) == 1 && vs[0].W == 8 {
		s := e.evalSet(t, vs[0], 1)
		e.dom[vs[0].Name] = s
		return
	}
	for _, v := range vs {
		e.entangled[v.Name] = true
	}
}
