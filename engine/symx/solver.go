package symx

// One live SMT solver process (z3 -in by default), driven incrementally.

import (
	"bufio"
	"fmt"
	"io"
	"os"
	"os/exec"
	"strconv"
	"strings"
	"time"
)

type SolverStats struct {
	Queries int
	Sat     int
	Unsat   int
	Unknown int
	Errors  int
	WallNS  int64
	MaxNS   int64
	Resets  int
	ByteDec int // queries decided without the solver (constant folding / trivial)
}

type Solver struct {
	name  string
	cmd   *exec.Cmd
	in    io.WriteCloser
	out   *bufio.Reader
	p     *smtPrinter
	Stats SolverStats
	log   io.Writer // optional transcript
	// asserted since last reset (for re-checking with a second solver)
	timeoutMS int
	levels    int
}

func solverArgs(name string, timeoutMS int) (string, []string) {
	switch name {
	case "z3":
		return "z3", []string{"-in", fmt.Sprintf("-t:%d", timeoutMS)}
	case "z3-new":
		return "z3-new", []string{"-in", fmt.Sprintf("-t:%d", timeoutMS)}
	case "cvc5":
		return "cvc5", []string{"--incremental", "--lang=smt2", "--produce-models", fmt.Sprintf("--tlimit-per=%d", timeoutMS)}
	}
	panic("unknown solver " + name)
}

func NewSolver(name string, timeoutMS int) (*Solver, error) {
	bin, args := solverArgs(name, timeoutMS)
	cmd := exec.Command(bin, args...)
	in, err := cmd.StdinPipe()
	if err != nil {
		return nil, err
	}
	out, err := cmd.StdoutPipe()
	if err != nil {
		return nil, err
	}
	cmd.Stderr = os.Stderr
	if err := cmd.Start(); err != nil {
		return nil, err
	}
	s := &Solver{name: name, cmd: cmd, in: in, out: bufio.NewReaderSize(out, 1<<16), p: newPrinter(), timeoutMS: timeoutMS}
	if p := os.Getenv("SYMX_SMTLOG"); p != "" {
		// one transcript per solver process: commands as sent, answers as "; <- " comments
		f, _ := os.OpenFile(fmt.Sprintf("%s/smt-%d-%d.smt2", p, os.Getpid(), time.Now().UnixNano()), os.O_CREATE|os.O_WRONLY|os.O_APPEND, 0o644)
		s.log = f
	}
	s.send("(set-option :produce-models true)\n")
	if name == "cvc5" {
		s.send("(set-logic QF_BV)\n")
	}
	return s, nil
}

func (s *Solver) send(txt string) {
	if s.log != nil {
		io.WriteString(s.log, txt)
	}
	if _, err := io.WriteString(s.in, txt); err != nil {
		panic(engineError("solver write: " + err.Error()))
	}
}

func (s *Solver) readLine() string {
	line, err := s.out.ReadString('\n')
	if err != nil {
		panic(engineError("solver read: " + err.Error()))
	}
	if s.log != nil {
		io.WriteString(s.log, "; <- "+line)
	}
	return strings.TrimSpace(line)
}

// AssertLevel asserts t inside a fresh push level (so that it can be popped).
func (s *Solver) AssertLevel(t *Term) {
	s.send("(push 1)\n")
	s.p.pushLevel()
	r := s.p.ref(t)
	s.send(s.p.take())
	s.send("(assert " + r + ")\n")
	s.levels++
}

// PopTo pops assertion levels until n remain.
func (s *Solver) PopTo(n int) {
	if s.levels > n {
		s.send(fmt.Sprintf("(pop %d)\n", s.levels-n))
		for s.levels > n {
			s.p.popLevel()
			s.levels--
		}
	}
}

func (s *Solver) Levels() int { return s.levels }

// Reset forgets all assertions and definitions.
func (s *Solver) Reset() {
	s.levels = 0
	s.send("(reset)\n(set-option :produce-models true)\n")
	if s.name == "cvc5" {
		s.send("(set-logic QF_BV)\n")
	}
	s.p = newPrinter()
	s.Stats.Resets++
}

// Assert adds t permanently (until Reset).
func (s *Solver) Assert(t *Term) {
	r := s.p.ref(t)
	s.send(s.p.take())
	s.send("(assert " + r + ")\n")
}

type SatResult int

const (
	Unsat SatResult = iota
	Sat
	Unknown
)

func (r SatResult) String() string { return [...]string{"unsat", "sat", "unknown"}[r] }

// Check decides satisfiability of the asserted set plus the extra terms
// (which are retracted afterwards). If wantModel is non-nil and the answer
// is sat, values of those variables are returned.
func (s *Solver) Check(extra []*Term, wantModel map[string]int) (SatResult, Model) {
	refs := make([]string, len(extra))
	for i, t := range extra {
		refs[i] = s.p.ref(t)
	}
	// Make sure model variables are declared.
	for name, w := range wantModel {
		s.p.ref(tVar(name, w))
	}
	s.send(s.p.take())
	var sb strings.Builder
	sb.WriteString("(push 1)\n")
	for _, r := range refs {
		sb.WriteString("(assert " + r + ")\n")
	}
	sb.WriteString("(check-sat)\n")
	start := time.Now()
	s.send(sb.String())
	ans := s.readLine()
	for strings.HasPrefix(ans, "(error") || ans == "" || strings.HasPrefix(ans, ";") || ans == "success" {
		if strings.HasPrefix(ans, "(error") {
			s.Stats.Errors++
			fmt.Fprintf(os.Stderr, "symx: solver error: %s\n", ans)
			// keep reading until a verdict arrives; the verdict is discarded.
			v := s.readLine()
			_ = v
			s.send("(pop 1)\n")
			s.Stats.Queries++
			s.Stats.Unknown++
			return Unknown, nil
		}
		ans = s.readLine()
	}
	d := time.Since(start).Nanoseconds()
	s.Stats.Queries++
	s.Stats.WallNS += d
	if d > s.Stats.MaxNS {
		s.Stats.MaxNS = d
	}
	var res SatResult
	switch ans {
	case "sat":
		res = Sat
		s.Stats.Sat++
	case "unsat":
		res = Unsat
		s.Stats.Unsat++
	default:
		res = Unknown
		s.Stats.Unknown++
	}
	var model Model
	if res == Sat && len(wantModel) > 0 {
		names := sortedKeys(wantModel)
		s.send("(get-value (" + strings.Join(names, " ") + "))\n")
		model = s.readModel(len(names))
	}
	s.send("(pop 1)\n")
	return res, model
}

// readModel parses "((a #x01) (b true) ...)" possibly spread over lines.
func (s *Solver) readModel(n int) Model {
	var sb strings.Builder
	depth := 0
	started := false
	for {
		line := s.readLine()
		if strings.HasPrefix(line, "(error") {
			s.Stats.Errors++
			panic(engineError("solver get-value: " + line))
		}
		sb.WriteString(line)
		sb.WriteString(" ")
		for _, c := range line {
			if c == '(' {
				depth++
				started = true
			} else if c == ')' {
				depth--
			}
		}
		if started && depth == 0 {
			break
		}
	}
	txt := sb.String()
	m := Model{}
	// tokenise
	toks := tokenize(txt)
	// expect ( ( name val ) ( name val ) ... )
	i := 1
	for i < len(toks)-1 {
		if toks[i] != "(" {
			i++
			continue
		}
		name := toks[i+1]
		j := i + 2
		var val uint64
		if toks[j] == "(" { // (_ bvN W)
			// ( _ bvN W )
			v := strings.TrimPrefix(toks[j+2], "bv")
			u, _ := strconv.ParseUint(v, 10, 64)
			val = u
			j += 5
		} else {
			tv := toks[j]
			switch {
			case tv == "true":
				val = 1
			case tv == "false":
				val = 0
			case strings.HasPrefix(tv, "#x"):
				u, _ := strconv.ParseUint(tv[2:], 16, 64)
				val = u
			case strings.HasPrefix(tv, "#b"):
				u, _ := strconv.ParseUint(tv[2:], 2, 64)
				val = u
			}
			j++
		}
		m[name] = val
		i = j + 1
	}
	return m
}

func tokenize(s string) []string {
	var toks []string
	cur := ""
	for _, c := range s {
		switch c {
		case '(', ')':
			if cur != "" {
				toks = append(toks, cur)
				cur = ""
			}
			toks = append(toks, string(c))
		case ' ', '\t', '\n', '\r':
			if cur != "" {
				toks = append(toks, cur)
				cur = ""
			}
		default:
			cur += string(c)
		}
	}
	if cur != "" {
		toks = append(toks, cur)
	}
	return toks
}

func (s *Solver) Close() {
	s.in.Close()
	s.cmd.Wait()
}
