// Copyright 2013 The Go Authors. All rights reserved.
// Use of this source code is governed by a BSD-style
// license that can be found in the LICENSE file.

package symx

// Maps. Both kinds are insertion-ordered so that replays are deterministic;
// iteration order is the explorer's choice (see rangeIter).
//
// omap    : keys of basic/pointer/chan type (the former map[value]value);
//           string keys may be symbolic (symString), resolved by forking.
// hashmap : keys that need a custom equivalence (interfaces, arrays, structs).

import (
	"fmt"
	"go/types"
)

type hashable interface {
	hash(t types.Type) int
	eq(t types.Type, x interface{}) bool
}

type entry struct {
	key     hashable
	value   value
	next    *entry
	deleted bool
}

type hashmap struct {
	keyType types.Type
	table   map[int]*entry
	order   []*entry
	length  int // number of entries in map
}

type oentry struct {
	k, v value
}

type omap struct {
	keyType types.Type
	entries []oentry
	idx     map[value]int // concrete keys only -> position in entries
}

// symMap is kept as an alias name for rendering code.
type symMap = omap

// makeMap returns an empty initialized map of key type kt,
// preallocating space for reserve elements.
func makeMap(kt types.Type, reserve int64) value {
	if usesBuiltinMap(kt) {
		return &omap{keyType: kt, idx: map[value]int{}}
	}
	return &hashmap{keyType: kt, table: make(map[int]*entry, reserve)}
}

func (m *omap) len() int {
	if m == nil {
		return 0
	}
	return len(m.entries)
}

func hashableKey(k value) bool {
	switch k.(type) {
	case symString, symVal:
		return false
	}
	return true
}

// find returns the position of key k, forking on equality with symbolic
// keys where needed. -1 when absent.
func (m *omap) find(i *interpreter, k value) int {
	if m == nil {
		return -1
	}
	if hashableKey(k) {
		if p, ok := m.idx[k]; ok {
			return p
		}
		// may still equal a symbolic stored key
		for p, e := range m.entries {
			if !hashableKey(e.k) {
				if i.ex.Branch(i.eqTerm(m.keyType, e.k, k)) {
					return p
				}
			}
		}
		return -1
	}
	for p, e := range m.entries {
		if i.ex.Branch(i.eqTerm(m.keyType, e.k, k)) {
			return p
		}
	}
	return -1
}

func (m *omap) lookup(i *interpreter, k value) (value, bool) {
	p := m.find(i, k)
	if p < 0 {
		return nil, false
	}
	return m.entries[p].v, true
}

func (m *omap) insert(i *interpreter, k, v value) {
	if m == nil {
		panic(runtimeErrorString("assignment to entry in nil map"))
	}
	p := m.find(i, k)
	if p >= 0 {
		m.entries[p].v = v
		return
	}
	m.entries = append(m.entries, oentry{k, v})
	if hashableKey(k) {
		m.idx[k] = len(m.entries) - 1
	}
}

func (m *omap) delete(i *interpreter, k value) {
	p := m.find(i, k)
	if p < 0 {
		return
	}
	m.entries = append(m.entries[:p:p], m.entries[p+1:]...)
	m.idx = map[value]int{}
	for q, e := range m.entries {
		if hashableKey(e.k) {
			m.idx[e.k] = q
		}
	}
}

// delete removes the association for key k, if any.
func (m *hashmap) delete(k hashable) {
	if m != nil {
		hash := k.hash(m.keyType)
		head := m.table[hash]
		if head != nil {
			if k.eq(m.keyType, head.key) {
				m.table[hash] = head.next
				head.deleted = true
				m.length--
				return
			}
			prev := head
			for e := head.next; e != nil; e = e.next {
				if k.eq(m.keyType, e.key) {
					prev.next = e.next
					e.deleted = true
					m.length--
					return
				}
				prev = e
			}
		}
	}
}

// lookup returns the value associated with key k, if present, or
// value(nil) otherwise.
func (m *hashmap) lookup(k hashable) value {
	if m != nil {
		hash := k.hash(m.keyType)
		for e := m.table[hash]; e != nil; e = e.next {
			if k.eq(m.keyType, e.key) {
				return e.value
			}
		}
	}
	return nil
}

// insert updates the map to associate key k with value v.  If there
// was already an association for an eq() (though not necessarily ==)
// k, the previous key remains in the map and its associated value is
// updated.
func (m *hashmap) insert(k hashable, v value) {
	if m == nil {
		panic(runtimeErrorString("assignment to entry in nil map"))
	}
	hash := k.hash(m.keyType)
	head := m.table[hash]
	for e := head; e != nil; e = e.next {
		if k.eq(m.keyType, e.key) {
			e.value = v
			return
		}
	}
	e := &entry{
		key:   k,
		value: v,
		next:  head,
	}
	m.table[hash] = e
	m.order = append(m.order, e)
	m.length++
}

// len returns the number of key/value associations in the map.
func (m *hashmap) len() int {
	if m != nil {
		return m.length
	}
	return 0
}

// live returns the live entries in insertion order.
func (m *hashmap) live() []*entry {
	if m == nil {
		return nil
	}
	var out []*entry
	for _, e := range m.order {
		if !e.deleted {
			out = append(out, e)
		}
	}
	return out
}

// orderedIter iterates a snapshot of (key, value) pairs.
type orderedIter struct {
	ks, vs []value
	pos    int
}

func (it *orderedIter) next() tuple {
	if it.pos >= len(it.ks) {
		return []value{false, nil, nil}
	}
	k, v := it.ks[it.pos], it.vs[it.pos]
	it.pos++
	return []value{true, k, v}
}

var perms3 = [][]int{{0, 1, 2}, {0, 2, 1}, {1, 0, 2}, {1, 2, 0}, {2, 0, 1}, {2, 1, 0}}

// mapIterFor builds the iterator, letting the explorer pick the order when
// map-order exploration is on (Go leaves the order unspecified).
func (i *interpreter) mapIterFor(ks, vs []value) iter {
	n := len(ks)
	if i.ex != nil && i.ex.MapOrders && n >= 2 {
		var perm []int
		switch {
		case n == 2:
			if i.ex.Choice(2) == 1 {
				perm = []int{1, 0}
			}
		case n == 3:
			perm = perms3[i.ex.Choice(6)]
		default:
			if i.ex.Choice(2) == 1 {
				perm = make([]int, n)
				for k := range perm {
					perm[k] = n - 1 - k
				}
			}
		}
		if perm != nil {
			nk, nv := make([]value, n), make([]value, n)
			for a, b := range perm {
				nk[a], nv[a] = ks[b], vs[b]
			}
			ks, vs = nk, nv
		}
	}
	return &orderedIter{ks: ks, vs: vs}
}

func init() { _ = fmt.Sprint }
