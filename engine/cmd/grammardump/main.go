// grammardump extracts, from /repo's current source, the declarative artefacts
// that define the route language: the lexer.Rules literal of parser.go and the
// `parser:"..."` struct tags of definition.go. Output: JSON on stdout.
package main

import (
	"encoding/json"
	"fmt"
	"go/ast"
	"go/parser"
	"go/token"
	"os"
	"reflect"
	"strconv"
)

type Rule struct {
	Include string `json:"include,omitempty"`
	Name    string `json:"name,omitempty"`
	Pattern string `json:"pattern,omitempty"`
	Action  string `json:"action,omitempty"` // push:<state> | pop | ""
}

type Field struct {
	Name string `json:"name"`
	Type string `json:"type"`
	Tag  string `json:"tag"`
}

type Out struct {
	Unresolved []string           `json:"unresolved,omitempty"`
	States     map[string][]Rule  `json:"states"`
	Structs    map[string][]Field `json:"structs"`
	Lookahead  int                `json:"lookahead"`
	Options    []string           `json:"options"`
}

// consts holds the string constants / variables with literal initialisers of
// the file, so that patterns assembled from named pieces are still extracted.
var consts = map[string]ast.Expr{}

func str(e ast.Expr) string {
	switch x := e.(type) {
	case *ast.BasicLit:
		if x.Kind == token.STRING {
			s, err := strconv.Unquote(x.Value)
			if err == nil {
				return s
			}
		}
	case *ast.BinaryExpr:
		if x.Op == token.ADD {
			return str(x.X) + str(x.Y)
		}
	case *ast.ParenExpr:
		return str(x.X)
	case *ast.Ident:
		if v, ok := consts[x.Name]; ok {
			delete(consts, x.Name) // guards against cycles
			s := str(v)
			consts[x.Name] = v
			return s
		}
		unresolved = append(unresolved, x.Name)
	default:
		unresolved = append(unresolved, fmt.Sprintf("%T", e))
	}
	return ""
}

var unresolved []string

func collectConsts(f *ast.File) {
	ast.Inspect(f, func(n ast.Node) bool {
		if vs, ok := n.(*ast.ValueSpec); ok {
			for i, nm := range vs.Names {
				if i < len(vs.Values) {
					consts[nm.Name] = vs.Values[i]
				}
			}
		}
		return true
	})
}

func typeString(e ast.Expr) string {
	switch t := e.(type) {
	case *ast.Ident:
		return t.Name
	case *ast.StarExpr:
		return "*" + typeString(t.X)
	case *ast.ArrayType:
		return "[]" + typeString(t.Elt)
	case *ast.SelectorExpr:
		return typeString(t.X) + "." + t.Sel.Name
	}
	return "?"
}

func main() {
	dir := "/repo/internal/route"
	if len(os.Args) > 1 {
		dir = os.Args[1]
	}
	fset := token.NewFileSet()
	out := Out{States: map[string][]Rule{}, Structs: map[string][]Field{}}

	pf, err := parser.ParseFile(fset, dir+"/parser.go", nil, 0)
	if err != nil {
		fmt.Fprintln(os.Stderr, err)
		os.Exit(2)
	}
	collectConsts(pf)
	ast.Inspect(pf, func(n ast.Node) bool {
		switch x := n.(type) {
		case *ast.CompositeLit:
			if se, ok := x.Type.(*ast.SelectorExpr); ok && se.Sel.Name == "Rules" {
				for _, el := range x.Elts {
					kv := el.(*ast.KeyValueExpr)
					state := str(kv.Key)
					for _, r := range kv.Value.(*ast.CompositeLit).Elts {
						switch rr := r.(type) {
						case *ast.CallExpr: // lexer.Include("Common")
							out.States[state] = append(out.States[state], Rule{Include: str(rr.Args[0])})
						case *ast.CompositeLit:
							var rule Rule
							for _, f := range rr.Elts {
								fkv := f.(*ast.KeyValueExpr)
								switch fkv.Key.(*ast.Ident).Name {
								case "Name":
									rule.Name = str(fkv.Value)
								case "Pattern":
									rule.Pattern = str(fkv.Value)
								case "Action":
									if c, ok := fkv.Value.(*ast.CallExpr); ok {
										fn := c.Fun.(*ast.SelectorExpr).Sel.Name
										if fn == "Push" {
											rule.Action = "push:" + str(c.Args[0])
										} else if fn == "Pop" {
											rule.Action = "pop"
										} else {
											rule.Action = fn
										}
									}
								}
							}
							out.States[state] = append(out.States[state], rule)
						}
					}
				}
			}
		case *ast.CallExpr:
			if se, ok := x.Fun.(*ast.SelectorExpr); ok {
				if se.Sel.Name == "UseLookahead" {
					if bl, ok := x.Args[0].(*ast.BasicLit); ok {
						out.Lookahead, _ = strconv.Atoi(bl.Value)
					}
				}
				if id, ok := se.X.(*ast.Ident); ok && id.Name == "participle" && se.Sel.Name != "Build" {
					out.Options = append(out.Options, se.Sel.Name)
				}
			}
		}
		return true
	})

	df, err := parser.ParseFile(fset, dir+"/definition.go", nil, 0)
	if err != nil {
		fmt.Fprintln(os.Stderr, err)
		os.Exit(2)
	}
	for _, d := range df.Decls {
		gd, ok := d.(*ast.GenDecl)
		if !ok {
			continue
		}
		for _, sp := range gd.Specs {
			ts, ok := sp.(*ast.TypeSpec)
			if !ok {
				continue
			}
			st, ok := ts.Type.(*ast.StructType)
			if !ok {
				continue
			}
			for _, f := range st.Fields.List {
				tag := ""
				if f.Tag != nil {
					raw, _ := strconv.Unquote(f.Tag.Value)
					tag = reflect.StructTag(raw).Get("parser")
				}
				for _, nm := range f.Names {
					out.Structs[ts.Name.Name] = append(out.Structs[ts.Name.Name], Field{Name: nm.Name, Type: typeString(f.Type), Tag: tag})
				}
			}
		}
	}
	out.Unresolved = unresolved
	b, _ := json.MarshalIndent(out, "", " ")
	os.Stdout.Write(b)
}
