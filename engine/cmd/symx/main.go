// symx: symbolic execution of flamego harness functions (see DESIGN.md §2).
package main

import (
	"encoding/json"
	"flag"
	"fmt"
	"os"
	"os/exec"
	"sync"
	"time"

	"verif/engine/symx"
)

type jobsFile struct {
	Jobs []symx.Job `json:"jobs"`
}

type outFile struct {
	Results []symx.JobResult `json:"results"`
	LoadMS  int64            `json:"load_ms"`
	WallMS  int64            `json:"wall_ms"`
	Workers int              `json:"workers"`
}

func main() {
	repo := flag.String("repo", "/repo", "repository root")
	overlayPath := flag.String("overlay", "", "JSON file {virtual path: real path}")
	jobsPath := flag.String("jobs", "", "jobs JSON")
	outPath := flag.String("out", "", "output JSON")
	workers := flag.Int("workers", 1, "parallel worker processes")
	root := flag.String("root", "github.com/flamego/flamego", "root package")
	flag.Parse()

	start := time.Now()
	var jf jobsFile
	data, err := os.ReadFile(*jobsPath)
	if err != nil {
		fatal(err)
	}
	if err := json.Unmarshal(data, &jf); err != nil {
		fatal(err)
	}

	if *workers > 1 && len(jf.Jobs) > 1 {
		n := *workers
		if n > len(jf.Jobs) {
			n = len(jf.Jobs)
		}
		// dynamic distribution: each child takes a static slice, interleaved
		// (jobs are expected to be sorted by decreasing estimated cost).
		dir, _ := os.MkdirTemp("", "symxw")
		defer os.RemoveAll(dir)
		var wg sync.WaitGroup
		outs := make([]outFile, n)
		errs := make([]error, n)
		for w := 0; w < n; w++ {
			var sub jobsFile
			for k := w; k < len(jf.Jobs); k += n {
				sub.Jobs = append(sub.Jobs, jf.Jobs[k])
			}
			jp := fmt.Sprintf("%s/jobs%d.json", dir, w)
			op := fmt.Sprintf("%s/out%d.json", dir, w)
			b, _ := json.Marshal(sub)
			os.WriteFile(jp, b, 0o644)
			wg.Add(1)
			go func(w int) {
				defer wg.Done()
				cmd := exec.Command(os.Args[0], "-repo", *repo, "-overlay", *overlayPath, "-jobs", jp, "-out", op, "-workers", "1", "-root", *root)
				cmd.Stderr = os.Stderr
				cmd.Stdout = os.Stderr
				if err := cmd.Run(); err != nil {
					errs[w] = err
					return
				}
				b, err := os.ReadFile(op)
				if err != nil {
					errs[w] = err
					return
				}
				errs[w] = json.Unmarshal(b, &outs[w])
			}(w)
		}
		wg.Wait()
		var all outFile
		for w := 0; w < n; w++ {
			if errs[w] != nil {
				fatal(fmt.Errorf("worker %d: %v", w, errs[w]))
			}
			all.Results = append(all.Results, outs[w].Results...)
			if outs[w].LoadMS > all.LoadMS {
				all.LoadMS = outs[w].LoadMS
			}
		}
		all.Workers = n
		all.WallMS = time.Since(start).Milliseconds()
		writeOut(*outPath, all)
		return
	}

	overlay := map[string][]byte{}
	if *overlayPath != "" {
		var m map[string]string
		b, err := os.ReadFile(*overlayPath)
		if err != nil {
			fatal(err)
		}
		if err := json.Unmarshal(b, &m); err != nil {
			fatal(err)
		}
		for virt, real := range m {
			c, err := os.ReadFile(real)
			if err != nil {
				fatal(err)
			}
			overlay[virt] = c
		}
	}
	prog, err := symx.Load(*repo, overlay, ".")
	if err != nil {
		fatal(err)
	}
	in, err := symx.NewInterp(prog, *root)
	if err != nil {
		fatal(err)
	}
	var out outFile
	out.LoadMS = prog.LoadMS
	out.Workers = 1
	for _, j := range jf.Jobs {
		r := in.RunJob(j)
		out.Results = append(out.Results, r)
	}
	out.WallMS = time.Since(start).Milliseconds()
	writeOut(*outPath, out)
}

func writeOut(path string, o outFile) {
	b, _ := json.MarshalIndent(o, "", " ")
	if path == "" {
		os.Stdout.Write(b)
		return
	}
	if err := os.WriteFile(path, b, 0o644); err != nil {
		fatal(err)
	}
}

func fatal(err error) {
	fmt.Fprintln(os.Stderr, "symx:", err)
	os.Exit(3)
}
