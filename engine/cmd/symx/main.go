// symx: symbolic execution of flamego harness functions (see DESIGN.md §2).
package main

import (
	"bufio"
	"encoding/json"
	"flag"
	"fmt"
	"os"
	"os/exec"
	"runtime/debug"
	"runtime/pprof"
	"strings"
	"sync"
	"time"

	"verif/engine/symx"
)

type jobsFile struct {
	Jobs []symx.Job `json:"jobs"`
}

type outFile struct {
	Results []symx.JobResult `json:"results"`
	LoadMS  int64            `json:"load_ms"`
	WallMS  int64            `json:"wall_ms"`
	Workers int              `json:"workers"`
	Tasks   int              `json:"tasks"`
	Expired bool             `json:"expired"`
}

// message from a worker: either donated sub-tasks or the task's result
type workerMsg struct {
	Spawn  [][]symx.Decision `json:"spawn,omitempty"`
	Result *symx.JobResult   `json:"result,omitempty"`
}

func main() {
	repo := flag.String("repo", "/repo", "repository root")
	overlayPath := flag.String("overlay", "", "JSON file {virtual path: real path}")
	jobsPath := flag.String("jobs", "", "jobs JSON")
	outPath := flag.String("out", "", "output JSON")
	workers := flag.Int("workers", 1, "parallel worker processes")
	root := flag.String("root", "github.com/flamego/flamego", "root package")
	serve := flag.Bool("serve", false, "worker mode: one task per stdin line")
	deadline := flag.Int("deadline", 0, "seconds after which unfinished work is abandoned and reported as inconclusive")
	flag.Parse()
	// the interpreter allocates a map per frame: collect a little less often, but never let
	// one of 16 workers outgrow its share of the machine (soft limit: the collector works harder near it)
	debug.SetGCPercent(200)
	debug.SetMemoryLimit(2200 << 20)
	if *serve {
		serveLoop(*repo, *overlayPath, *root)
		return
	}

	start := time.Now()
	var jf jobsFile
	data, err := os.ReadFile(*jobsPath)
	if err != nil {
		fatal(err)
	}
	if err := json.Unmarshal(data, &jf); err != nil {
		fatal(err)
	}

	if *workers <= 1 {
		if pp := os.Getenv("SYMX_CPUPROFILE"); pp != "" {
			f, _ := os.Create(pp)
			pprof.StartCPUProfile(f)
			defer pprof.StopCPUProfile()
		}
		in, prog := loadInterp(*repo, *overlayPath, *root)
		var out outFile
		out.LoadMS = prog.LoadMS
		out.Workers = 1
		for _, j := range jf.Jobs {
			j.ShedMS = -1
			r := in.RunJob(j, nil)
			out.Results = append(out.Results, r)
		}
		out.WallMS = time.Since(start).Milliseconds()
		writeOut(*outPath, out)
		return
	}

	// ---- scheduler: a shared queue of tasks; workers donate sub-trees back
	n := *workers
	var mu sync.Mutex
	cond := sync.NewCond(&mu)
	queue := append([]symx.Job{}, jf.Jobs...)
	active := 0
	acc := map[string]*symx.JobResult{}
	order := []string{}
	for _, j := range jf.Jobs {
		acc[j.ID] = &symx.JobResult{}
		order = append(order, j.ID)
	}
	jobByID := map[string]symx.Job{}
	for _, j := range jf.Jobs {
		jobByID[j.ID] = j
	}
	tasks := 0
	notes := map[string]string{}
	var firstErr error
	var wg sync.WaitGroup
	expired := false
	var cmds []*exec.Cmd
	if *deadline > 0 {
		go func() {
			time.Sleep(time.Duration(*deadline) * time.Second)
			mu.Lock()
			expired = true
			abandoned := len(queue)
			queue = nil
			for _, c := range cmds {
				if c != nil && c.Process != nil {
					c.Process.Kill()
				}
			}
			for _, id := range order {
				if acc[id].ID == "" {
					acc[id].ID = id
					acc[id].ByStatus = map[string]int{}
				}
			}
			_ = abandoned
			cond.Broadcast()
			mu.Unlock()
		}()
	}
	for w := 0; w < n; w++ {
		wg.Add(1)
		go func(w int) {
			defer wg.Done()
			var cmd *exec.Cmd
			var enc *json.Encoder
			var rd *bufio.Reader
			startWorker := func() error {
				cmd = exec.Command(os.Args[0], "-serve", "-repo", *repo, "-overlay", *overlayPath, "-root", *root)
				cmd.Stderr = os.Stderr
				in, _ := cmd.StdinPipe()
				outp, _ := cmd.StdoutPipe()
				if err := cmd.Start(); err != nil {
					return err
				}
				mu.Lock()
				cmds = append(cmds, cmd)
				mu.Unlock()
				rd = bufio.NewReaderSize(outp, 1<<20)
				enc = json.NewEncoder(in)
				return nil
			}
			for {
				mu.Lock()
				for len(queue) == 0 && active > 0 && firstErr == nil {
					cond.Wait()
				}
				if len(queue) == 0 || firstErr != nil {
					mu.Unlock()
					break
				}
				task := queue[0]
				queue = queue[1:]
				active++
				tasks++
				mu.Unlock()

				if cmd == nil {
					if err := startWorker(); err != nil {
						mu.Lock()
						firstErr = err
						active--
						cond.Broadcast()
						mu.Unlock()
						break
					}
				}
				fail := func(err error) {
					mu.Lock()
					if expired {
						// the deadline killed this worker: its task is abandoned, not an error
						a := acc[task.ID]
						if a.ID == "" {
							a.ID = task.ID
							a.ByStatus = map[string]int{}
						}
						a.Inconclusive = append(a.Inconclusive, "deadline reached: a task of this job was abandoned")
						active--
						cond.Broadcast()
						mu.Unlock()
						return
					}
					if firstErr == nil {
						firstErr = fmt.Errorf("worker %d on job %s: %v", w, task.ID, err)
					}
					active--
					cond.Broadcast()
					mu.Unlock()
				}
				if err := enc.Encode(task); err != nil {
					fail(err)
					return
				}
				done := false
				for !done {
					line, err := rd.ReadBytes('\n')
					if err != nil {
						fail(fmt.Errorf("worker died: %v", err))
						return
					}
					var m workerMsg
					if err := json.Unmarshal(line, &m); err != nil {
						fail(fmt.Errorf("bad message: %v", err))
						return
					}
					mu.Lock()
					if m.Spawn != nil && task.Gen == jobByID[task.ID].Gen {
						for _, pre := range m.Spawn {
							t := jobByID[task.ID]
							t.RootPrefix = pre
							queue = append(queue, t)
						}
						cond.Broadcast()
					}
					if m.Result != nil && m.Result.Gen != jobByID[task.ID].Gen {
						// a result of a superseded generation of this job (it is being re-run with set-up per path)
						active--
						done = true
						cond.Broadcast()
						mu.Unlock()
						continue
					}
					if m.Result != nil && strings.HasPrefix(m.Result.EngineError, "replay divergence") && !jobByID[task.ID].SetupEachPath && jobByID[task.ID].Setup != "" {
						// the body changed what set-up built: start the job over with set-up repeated on every path
						j := jobByID[task.ID]
						j.SetupEachPath = true
						j.Gen++
						j.RootPrefix = nil
						jobByID[task.ID] = j
						acc[task.ID] = &symx.JobResult{}
						var keepq []symx.Job
						for _, q := range queue {
							if q.ID != task.ID {
								keepq = append(keepq, q)
							}
						}
						queue = append(keepq, j)
						notes[task.ID] = "set-up repeated per path after: " + m.Result.EngineError
						active--
						done = true
						cond.Broadcast()
						mu.Unlock()
						continue
					}
					if m.Result != nil {
						keep := task.KeepWitnesses
						if keep == 0 {
							keep = 24
						}
						symx.MergeResults(acc[task.ID], *m.Result, keep)
						active--
						done = true
						cond.Broadcast()
					}
					mu.Unlock()
				}
			}
			if cmd != nil {
				cmd.Process.Kill()
				cmd.Wait()
			}
		}(w)
	}
	wg.Wait()
	if firstErr != nil {
		fatal(firstErr)
	}
	var all outFile
	for _, id := range order {
		if n, ok := notes[id]; ok {
			acc[id].Notes = append(acc[id].Notes, n)
		}
		all.Results = append(all.Results, *acc[id])
	}
	all.Workers = n
	all.Tasks = tasks
	all.Expired = expired
	all.WallMS = time.Since(start).Milliseconds()
	writeOut(*outPath, all)
}

func loadInterp(repo, overlayPath, root string) (*symx.Interp, *symx.Program) {
	overlay := map[string][]byte{}
	if overlayPath != "" {
		var m map[string]string
		b, err := os.ReadFile(overlayPath)
		if err != nil {
			fatal(err)
		}
		if err := json.Unmarshal(b, &m); err != nil {
			fatal(err)
		}
		for virt, real := range m {
			c, err := os.ReadFile(real)
			if err != nil {
				fatal(err)
			}
			overlay[virt] = c
		}
	}
	prog, err := symx.Load(repo, overlay, ".")
	if err != nil {
		fatal(err)
	}
	in, err := symx.NewInterp(prog, root)
	if err != nil {
		fatal(err)
	}
	return in, prog
}

func serveLoop(repo, overlayPath, root string) {
	in, _ := loadInterp(repo, overlayPath, root)
	rd := bufio.NewReaderSize(os.Stdin, 1<<20)
	out := bufio.NewWriter(os.Stdout)
	send := func(m workerMsg) {
		b, _ := json.Marshal(m)
		out.Write(b)
		out.WriteByte('\n')
		out.Flush()
	}
	for {
		line, err := rd.ReadBytes('\n')
		if len(line) > 1 {
			var j symx.Job
			if e := json.Unmarshal(line, &j); e != nil {
				fatal(e)
			}
			r := in.RunJob(j, func(give [][]symx.Decision) { send(workerMsg{Spawn: give}) })
			send(workerMsg{Result: &r})
		}
		if err != nil {
			return
		}
	}
}

func writeOut(path string, o outFile) {
	b, _ := json.MarshalIndent(o, "", " ")
	if path == "" {
		os.Stdout.Write(b)
		return
	}
	if err := os.WriteFile(path, b, 0o644); err != nil {
		fatal(err)
	}
}

func fatal(err error) {
	fmt.Fprintln(os.Stderr, "symx:", err)
	os.Exit(3)
}
